#!/usr/bin/env python3
"""Regenerates MANIFEST.json from the table below (run after adding a property driver)."""
import json, os, sys
HERE = os.path.dirname(os.path.dirname(os.path.abspath(__file__)))
BASE_NOTE = ("Real arithmetic instead of float64; jax.numpy/lax primitive models (jxverif/sym.py) and z3 trusted; "
             "exp/log/tanh as uninterpreted functions with instantiated true axioms. Details in evidence.assumptions.")
CHECKS = {
    "C03": dict(cat="proof", ref="DESIGN.md §4 C03",
        text="Every function between the property and the code (save_exp, exponential_euler, solve_*_exponential, _vtrap, efun, "
             "all gate rate functions, all update_states of channels and synapses) carries a sidecar contract; the real code object of each "
             "is executed symbolically and every obligation (definedness, callee preconditions, in [0,1], closed-form exponential update, "
             "toward-never-past) is discharged by z3 for all real v in [-200,200], dt in (0,1000], states in [0,1] and parameter ranges.",
        technique="contract-based deductive verification: VCs generated from the real code objects, discharged by z3 (exp as UF + axioms)"),
}
NOT_APPLICABLE = {
    "C18": "pickle/deepcopy round-trips are decided by CPython's object-graph serialisation, not by any repository function; no pre/postcondition "
           "within reach of a deductive verifier can express it (DESIGN.md §5). The picklability clause of the module invariant is covered under C19 as bounded.",
}
PENDING = "driver not built yet in this session (planned, see DESIGN.md §4)"
ALL = [f"C{i:02d}" for i in range(1, 21)]

def main():
    checks = []
    for pid in ALL:
        if pid not in CHECKS or not os.path.exists(os.path.join(HERE, "jxverif", "props", f"{pid}.py")):
            continue
        c = CHECKS[pid]
        checks.append({
            "property_id": pid,
            "quick_cmd": f"./check {pid} quick",
            "thorough_cmd": f"./check {pid} thorough",
            "evidence_file": f"evidence/{pid}.json",
            "replay_cmd_template": "./check --replay {path}",
            "engine": "jxverif",
            "level_claimed": {"category": c["cat"], "text": c["text"], "design_ref": c["ref"]},
            "level_note": c.get("note", BASE_NOTE),
            "technique": c["technique"],
        })
    claimed = {c["property_id"] for c in checks}
    na = [{"property_id": p, "reason": NOT_APPLICABLE.get(p, PENDING)} for p in ALL if p not in claimed]
    m = {
        "version": 1,
        "setup_cmd": "./check setup",
        "hooks": {"guard": "JAXLEY_VERIF", "enable": "no source hooks: contracts are sidecar files under /verif/jxverif and the real code objects of /repo's working tree are re-read on every run (JAXLEY_VERIF=1 is exported by ./check for completeness)",
                  "baseline_off_cmd": "cd /repo && /venv/bin/python -m pytest -q -p no:cacheprovider --timeout=900 --continue-on-collection-errors -n 8",
                  "source_commits": [], "add_only": True},
        "engines": [{"name": "jxverif", "path": "jxverif/", "serves_properties": sorted(claimed),
                     "kind_free_text": "symbolic execution of the real Python code objects over a model of the JAX primitives; sidecar contracts; obligations discharged by z3 (cvc5 as second solver); native replay of counter-models"}],
        "checks": checks,
        "not_applicable": na,
        "notes": "Exit codes of ./check: 0 held / 1 violation (VIOLATION line) / 2 undecided / 3 checker error. known_findings.jsonl lists recorded defects and repaired ones.",
    }
    json.dump(m, open(os.path.join(HERE, "MANIFEST.json"), "w"), indent=1)
    print("claimed:", sorted(claimed))

main()
