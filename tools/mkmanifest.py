#!/usr/bin/env python3
"""Regenerates MANIFEST.json from the table below (run after adding a property driver)."""
import json, os, sys
HERE = os.path.dirname(os.path.dirname(os.path.abspath(__file__)))
BASE_NOTE = ("Real arithmetic instead of float64; jax.numpy/lax primitive models (jxverif/sym.py) and z3 trusted; "
             "exp/log/tanh as uninterpreted functions with instantiated true axioms. Details in evidence.assumptions.")
CHECKS = {
    "C03": dict(cat="proof", ref="DESIGN.md §4 C03",
        text="Every function between the property and the code (save_exp, exponential_euler, solve_*_exponential, _vtrap, efun, "
             "all gate rate functions, all update_states of channels and synapses) carries a sidecar contract; the real code object of each "
             "is executed symbolically and every obligation (definedness, callee preconditions, in [0,1], closed-form exponential update, "
             "toward-never-past) is discharged by z3 for all real v in [-200,200], dt in (0,1000], states in [0,1] and parameter ranges.",
        technique="contract-based deductive verification: VCs generated from the real code objects, discharged by z3 (exp as UF + axioms)"),
}
CHECKS.update({
    "C01": dict(cat="proof", ref="DESIGN.md §4 C01",
        text="For every enumerated static structure (tree shape x compartment counts x cells/networks) the REAL functions of solver_voltage.py, "
             "compute_axial_conductances and Module.step run symbolically on per-compartment symbolic geometry, capacitance, membrane terms, voltages and dt. "
             "Contracts at every elimination step (pivots non-zero, solution preserved, M-matrix invariant re-established) on fresh pre-state symbols, the assembled "
             "system proved equal to the cable-physics specification (specs/cable.py), the final view proved the identity; jax.sparse decided via the CSR denotation "
             "of the arrays handed to spsolve; bwd_euler/crank_nicolson/fwd_euler scheme selection and the Crank-Nicolson lemma. All REAL parameter values are covered "
             "by z3 per structure; structures are enumerated exhaustively up to the stated bound (not unbounded). The level-schedule helpers the elimination is driven by "
             "(compute_levels, compute_children_in_level, compute_parents_in_level, compute_children_indices) are in addition proved for parent vectors of ANY length: "
             "verification conditions generated from their source text with loop invariants and index-in-range obligations (jxverif/astvc.py, DESIGN.md §9.9).",
        technique="contract-based deductive verification of the real solver code per static structure (z3 QF_NRA), structures bounded-exhaustive; AST-generated VCs with loop invariants (z3, unbounded) for the level-schedule helpers"),
    "C04": dict(cat="proof", ref="DESIGN.md §4 C04",
        text="The real gate functions, compute_current, init_state and parameter dictionaries of HH, Leak, Na, K, Km, CaL, CaT and IonotropicSynapse are executed symbolically and "
             "proved equal to the published equations (specs/kinetics.py) for all v in [-150,100] and parameter ranges: exact equality where the exp-clip is provably inactive, "
             "|x_inf| 1e-6 / tau rel 1e-6 where it can be active, 1e-9 relative within 1e-6 of a removable singularity; renaming proved to change names only.",
        technique="contract-based deductive verification: real code objects vs literature specification, z3 with exp axioms + incremental linearisation"),
    "C14": dict(cat="proof", ref="DESIGN.md §4 C14",
        text="init_state contracts (each gating variable == steady state of its own gate at the given voltage/parameters), update_states contracts (closed-form update of that same gate) "
             "and the fixed-point lemma update(init)==init for all dt>0, all discharged by z3 from the real code for every built-in channel.",
        technique="contract-based deductive verification (modular: gate contracts as uninterpreted functions), z3"),
    "C17": dict(cat="proof", ref="DESIGN.md §4 C17",
        text="Real forward/inverse of Sigmoid, Softplus, NegSoftplus, Affine transforms proved bounded, strictly monotone and mutually inverse for all x in [-1e6,1e6] and all lower<upper; "
             "Chain/Masked/ParamTransform proved to compose uninterpreted component bijections correctly.",
        technique="contract-based deductive verification, z3 with exp/log axioms (goal-directed exponentiation)"),
})
T_SYM = "contract-based deductive verification: real code objects executed symbolically, obligations discharged by z3"
CHECKS.update({
    "C02": dict(cat="proof", ref="DESIGN.md §4 C02",
        text="On the operator assembled by the REAL code (matrix denoted by the arrays handed to the sparse solver) z3 proves for all positive geometry/capacitance/membrane terms and all dt>0, per enumerated "
             "structure: weighted column sums carry no axial term (charge conservation, with explicit branch-point multipliers), diag(D,mu)M symmetric (reciprocity, symmetric inverse cited), row sums 1+dt*a / 0 "
             "(uniform stays uniform), M-matrix signs plus a generic discrete-maximum-principle row lemma (no overshoot), and the stimulus charge identity I*dt through the real _get_external_input. Synaptic charge: the contracts of the real Network._synapse_currents / Module.step (every compartment receives exactly the currents of the synapses listed onto it, converted with its area and divided once by its symbolic capacitance; exact linearisation in v_post) on two wirings with all synapse types.",
        technique=T_SYM + " (QF_NRA) per static structure; structures bounded-exhaustive"),
    "C05": dict(cat="proof", ref="DESIGN.md §4 C05",
        text="Proof of the SIDE CONDITIONS under which jax.grad is the derivative, not of gradient agreement itself: strict definedness of every kernel on the differentiable path (both branches of every where), "
             "routing of trainables through the real get_all_parameters/get_all_states (indices in range, groups disjoint, every unique_indices/indices_are_sorted promise true), no select taken on a null set (a where whose condition is an equality between traced reals) with a derivative different from the surrounding branch (symbolic differentiation of the terms of the real kernels and of the real Module.step), an AST scan for derivative-cutting constructs, and for every jax.custom_jvp on the path the obligation that its rule equals the symbolic derivative of its primal. "
             "JAX's AD is assumed correct; finite-difference agreement is not checked.",
        technique=T_SYM + "; AST transparency scan", note="Claims the side conditions only; JAX AD/scan/checkpoint/vmap assumed correct. " + BASE_NOTE),
    "C06": dict(cat="proof", ref="DESIGN.md §4 C06",
        text="The real integrate / nested_checkpoint_scan / _inner_nested_scan run with Module.step as an uninterpreted function: for every enumerated checkpoint layout the recording TERMS equal those of the plain call "
             "(valid for every step function, model and input value); frame: no module attribute written, externals/external_inds/recordings untouched, repeated call identical; symbolic Module.step writes only its local state. jit/vmap equivalence is JAX's contract.",
        technique="contract-based verification with an uninterpreted step function (ground EUF: structural equality of hash-consed terms) on the real integrate code"),
    "C07": dict(cat="proof", ref="DESIGN.md §4 C07",
        text="Same engine: one call of n1+n2 steps equals n1 steps plus continuation from the returned states (all splits, repeated split), manual init_fn/step_fn stepping yields the same state terms, returned state = state after the last returned time point for every checkpoint layout (known finding F6 for products larger than the run).",
        technique="contract-based verification with an uninterpreted step function (ground EUF) on the real integrate / build_init_and_step_fn code"),
    "C08": dict(cat="proof", ref="DESIGN.md §4 C08",
        text="Time axis by the uninterpreted-step engine on the real integrate/add_stimuli/add_clamps for 110 API scenarios (row order, column k = state after k steps, sample k acts in step k+1, t_max padding/truncation, data_* = static); "
             "clamps and the recording gather through the real Module.step / get_all_states on symbolic tables (known finding F5); stimulus charge identity is C02; step_current on a bounded grid of times with symbolic amplitudes.",
        technique="uninterpreted-step engine (EUF) + symbolic execution of the real Module.step; bounded grid for step_current times"),
    "C09": dict(cat="proof", ref="DESIGN.md §4 C09",
        text="For each enumerated wiring the real to_jax/get_all_parameters/get_all_states/_step_synapse_state/_synapse_currents/gather_synapes/step run on symbolic .nodes/.edges; z3 proves that each edge row's state update and current use v[pre], v[post] and its own parameters, "
             "that each compartment receives exactly the currents listed onto it (converted with the post area, divided by its capacitance), exact linearisation for currents affine in v_post, and vanishing for zero conductance. set() through edge views: bounded evaluation.",
        technique=T_SYM + " per wiring; wirings enumerated"),
    "C10": dict(cat="proof", ref="DESIGN.md §4 C10",
        text="data_set and make_trainable+params are pushed through the real get_all_parameters/get_all_states with symbolic values: the arrays carry X exactly on the denoted rows (oracle from construction numbers) and the table symbol elsewhere, NaN cells stay absent, scatter indices in range; "
             "set() and write_trainables are compared by exact native table diffs (bounded). That the simulation depends on parameter and state values only through those arrays is a frame / dependency contract on the real Module.step: called with fresh symbols in params / states, no table symbol occurs in its outputs or in the solver's arguments.",
        technique=T_SYM + " (structural term equality) + bounded native table diffs for set/write_trainables"),
    "C12": dict(cat="proof", ref="DESIGN.md §4 C12",
        text="Assembly table contracts evaluated on a heterogeneous family (bounded); with symbolic tables the membrane terms, mechanism updates and axial conductances of every cell inside a synapse-free network are proved identical to the cell alone (rows renamed), likewise one-branch cell = branch and one-compartment branch = compartment; "
             "the solver side on networks of different-depth cells by the C01 chain.",
        technique=T_SYM + " (AC-normalised term equality, z3 fallback); C01 chain on networks; bounded table contracts"),
    "C15": dict(cat="proof", ref="DESIGN.md §4 C15",
        text="One-step consistency with exact constants for all real parameter values: uniform-cable coupling = centred second difference of (d/4Ra) d2V/dx2 / c_m with um, ohm cm, uF/cm2 converted exactly; sealed ends; single-compartment bwd_euler / crank_nicolson / fwd_euler updates of the real Module.step against tau = cm/(1000 g), R I = 100 I/(2 pi r l g); fixed point E + I/(gA); a cable split over two branches is proved to be the same cable (branch-point elimination lemma) and every back end returns the solution of the physical system also for a cable inside a network of cells with different depth (C01 chain on those structures). "
             "The real integrate is proved (uninterpreted-step engine) to take every step with exactly the caller's delta_t for time steps off the 1e-4 grid. Convergence orders follow by cited theorems; the limit itself is not mechanised.",
        technique=T_SYM + " (QF_NRA identities with unit factors)"),
})
T_B = "bounded evaluation of sidecar contracts on the real (pandas-bound) code against an independent oracle"
B_NOTE = ("Exploration level: the contracts are EVALUATED on a bounded family, not proved (the pandas-bound bodies are outside the reach of the symbolic runtime); "
          "the oracle in the driver states what the property means; kernels / lemmas that are proved are listed in the evidence.")
CHECKS.update({
    "C11": dict(cat="exploration", ref="DESIGN.md §4 C11", note=B_NOTE,
        text="View contracts (selected compartments = denotation of the chain, synapses among them, dense local indices, [] and iteration = method form, mutations confined to the view's rows) evaluated against an independent denotation oracle "
             "on an irregular 3-cell network for all chains of depth 1-3 over 13 index forms in local scope, global scope and with a scope switch, and for chains mixing synapse steps (type view, global edge(i), select(edges=)) with compartment steps in both orders; the loc digitisation is proved for all at in [0,1] (z3).",
        technique=T_B + "; z3 lemma for loc"),
    "C13": dict(cat="exploration", ref="DESIGN.md §4 C13", note=B_NOTE,
        text="set_ncomp contract evaluated against modules built directly with n compartments (hand-built 5-branch cell with distinct per-branch properties, all branches x n, two-call sequences; SWC files against read_swc(ncomp=n), also with min_radius): tables, other branches, connectivity, group membership, solver structures equal; native one-step comparison on all backends.",
        technique=T_B),
    "C16": dict(cat="exploration", ref="DESIGN.md §4 C16", note=B_NOTE,
        text="read_swc contract evaluated against an independent SWC oracle (sections, parent-child connectivity, path lengths under the documented conventions, radius interpolation at compartment centres, type groups, ncomp-independence) on generated files with single- and multi-point somata and binary neurite trees, plus the repository's SWC files; _split_branch_equally bounded-exhaustively.",
        technique=T_B),
    "C19": dict(cat="exploration", ref="DESIGN.md §4 C19", note=B_NOTE,
        text="Representation invariant wf(module) and undo postconditions evaluated after every accepted operation of all histories of depth <= 2 and a stride of depth 3 over a 31-letter alphabet on a cell and a network; "
             "for sampled reached states z3 proves (all values) that the real to_jax/get_all_*/step chain hands the solver exactly the membrane terms of the model displayed by the tables (known finding F25: insertion of a channel overwrites a set() value of a parameter it shares with a present channel).",
        technique=T_B + "; per reached state: symbolic execution of the real step + z3"),
    "C20": dict(cat="exploration", ref="DESIGN.md §4 C20", note=B_NOTE,
        text="Builder contracts (exactly the requested pairs, pre site = first compartment, post site in the intended cell, never raises) evaluated for populations over a 4-cell network with cells of different size, all boolean matrices up to a bound, and EVERY outcome of the binomial draw of sparse_connect (stubbed); "
             "the fully_connect index layout is proved a bijection for ALL population sizes by z3 integer arithmetic.",
        technique=T_B + "; unbounded z3 lemma for the fully_connect layout"),
})
NOT_APPLICABLE = {
    "C18": "pickle/deepcopy round-trips are decided by CPython's object-graph serialisation, not by any repository function; no pre/postcondition "
           "within reach of a deductive verifier can express it (DESIGN.md §5). The picklability clause of the module invariant is covered under C19 as bounded.",
}
PENDING = "driver not built yet in this session (planned, see DESIGN.md §4)"
ALL = [f"C{i:02d}" for i in range(1, 21)]

def main():
    checks = []
    for pid in ALL:
        if pid not in CHECKS or not os.path.exists(os.path.join(HERE, "jxverif", "props", f"{pid}.py")):
            continue
        c = CHECKS[pid]
        checks.append({
            "property_id": pid,
            "quick_cmd": f"./check {pid} quick",
            "thorough_cmd": f"./check {pid} thorough",
            "evidence_file": f"evidence/{pid}.json",
            "replay_cmd_template": "./check --replay {path}",
            "engine": "jxverif",
            "level_claimed": {"category": c["cat"], "text": c["text"], "design_ref": c["ref"]},
            "level_note": c.get("note", BASE_NOTE),
            "technique": c["technique"],
        })
    claimed = {c["property_id"] for c in checks}
    na = [{"property_id": p, "reason": NOT_APPLICABLE.get(p, PENDING)} for p in ALL if p not in claimed]
    m = {
        "version": 1,
        "setup_cmd": "./check setup",
        "hooks": {"guard": "JAXLEY_VERIF", "enable": "no source hooks: contracts are sidecar files under /verif/jxverif and the real code objects of /repo's working tree are re-read on every run (JAXLEY_VERIF=1 is exported by ./check for completeness)",
                  "baseline_off_cmd": "cd /repo && /venv/bin/python -m pytest -q -p no:cacheprovider --timeout=900 --continue-on-collection-errors -n 8",
                  "source_commits": [], "add_only": True},
        "engines": [{"name": "jxverif", "path": "jxverif/", "serves_properties": sorted(claimed),
                     "kind_free_text": "symbolic execution of the real Python code objects over a model of the JAX primitives; sidecar contracts; obligations discharged by z3 (cvc5 as second solver); native replay of counter-models"}],
        "checks": checks,
        "not_applicable": na,
        "notes": "Exit codes of ./check: 0 held / 1 violation (VIOLATION line) / 2 undecided / 3 checker error. known_findings.jsonl lists recorded defects and repaired ones.",
    }
    json.dump(m, open(os.path.join(HERE, "MANIFEST.json"), "w"), indent=1)
    print("claimed:", sorted(claimed))

main()
