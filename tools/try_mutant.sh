#!/usr/bin/env bash
# usage: try_mutant.sh <seeded dir> <prop> [<prop> ...]  -- apply patch to /repo, run checks, revert
D="$(cd "$1" && pwd)"; shift
git -C /repo apply "$D/patch.diff" || { echo "patch does not apply"; exit 3; }
for p in "$@"; do ( cd /verif && ./check $p quick 2>&1 | grep -E "^(VIOLATION|UNDECIDED|CHECKER|KNOWN|\[)" | head -8; echo "exit=${PIPESTATUS[0]}" ); done
git -C /repo checkout -- .
git -C /repo status --short | head -3
