#!/usr/bin/env bash
# usage: try_mutant.sh <seeded dir> <prop> [<prop> ...]  -- apply patch to /repo, run checks, revert.
# Evidence files are saved and restored: evidence committed under /verif must come from the unchanged tree.
mkdir -p /root/scratch; exec 9>/root/scratch/repo.lock; flock 9   # one user of /repo's working tree at a time
D="$(cd "$1" && pwd)"; shift
BK="$(mktemp -d /root/scratch/evbk.XXXX)"; cp -a /verif/evidence/. "$BK"/
git -C /repo apply "$D/patch.diff" || { echo "patch does not apply"; rm -rf "$BK"; exit 3; }
for p in "$@"; do ( cd /verif && ./check $p quick 2>&1 | grep -E "^(VIOLATION|UNDECIDED|CHECKER|KNOWN|\[)" | head -8; echo "exit=${PIPESTATUS[0]}" ); done
git -C /repo checkout -- .
git -C /repo status --short | head -3
rm -rf /verif/evidence; mkdir -p /verif/evidence; cp -a "$BK"/. /verif/evidence/; rm -rf "$BK"
