#!/usr/bin/env bash
# usage: regress_wt.sh <lanes> [<seeded id> ...]   -- regression over seeded changes WITHOUT touching /repo or /verif/evidence:
# each change is applied to its own scratch worktree of /repo's HEAD (first on PYTHONPATH), the check of the property it breaks
# runs with JXV_OUT pointing to a scratch directory, and must exit 1 with a VIOLATION line.  Output: "<id> <prop> exit=<n>".
LANES="${1:-2}"; shift
cd /verif
IDS=("$@"); if [ ${#IDS[@]} -eq 0 ]; then IDS=($(ls -d seeded/C* | xargs -n1 basename)); fi
mkdir -p /root/scratch/regress
one() {
  id="$1"; p="${id%%_*}"; WT="/tmp/wt/reg_$id"; OUT="/root/scratch/regress/$id"
  rm -rf "$WT" "$OUT"; mkdir -p "$OUT"
  git -C /repo worktree add --detach "$WT" HEAD -q 2>/dev/null || { echo "$id $p worktree-failed"; return; }
  if git -C "$WT" apply "/verif/seeded/$id/patch.diff" 2>/dev/null; then
    ( cd /verif && JXV_OUT="$OUT" JXV_NPROC=7 PYTHONPATH="$WT" ./check $p quick > "$OUT/log" 2>&1; echo "$id $p exit=$? $(grep -c '^VIOLATION' "$OUT/log") violation-lines" )
  else
    echo "$id $p patch-does-not-apply"
  fi
  git -C /repo worktree remove --force "$WT"
}
export -f one
printf "%s\n" "${IDS[@]}" | xargs -P "$LANES" -I{} bash -c 'one {}'
