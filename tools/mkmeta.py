#!/usr/bin/env python3
"""usage: mkmeta.py <seeded id> <round> <change> <needs_to_manifest> <detected_by> [<detected_by> ...]  -> seeded/<id>/meta.json"""
import json, sys, pathlib
sid, rnd, change, needs, *det = sys.argv[1:]
d = pathlib.Path("/verif/seeded") / sid
summ = (d / "confirm_summary.txt").read_text().strip() if (d / "confirm_summary.txt").exists() else "not confirmed"
meta = {"id": sid, "round": int(rnd), "breaks_property": sid.split("_")[0], "change": change, "needs_to_manifest": needs,
        "source": "independent sub-agent given only the property text, a scratch worktree and one-line descriptions of the earlier changes to avoid",
        "confirmed": {"how": "tools/confirm_mutant.sh (fresh scratch worktree of /repo HEAD; demo exits 0 without / 1 with the patch; repository tests pass with the patch)", "result": summ},
        "detected_by": det, "how_checked": f"tools/try_mutant_wt.sh seeded/{sid} <property> (and tools/all_mutants.sh at the end)"}
(d / "meta.json").write_text(json.dumps(meta, indent=1))
print(summ)
