#!/usr/bin/env bash
# usage: neutral_region.sh <Nk> <prop> [...]: collect the region's patches from its worktree (if still there), run every check named
K="$1"; shift
cd /verif
if [ -d /tmp/wt/$K/NEUTRAL ]; then mkdir -p neutral/$K; cp /tmp/wt/$K/NEUTRAL/neutral_*.diff neutral/$K/; cp /tmp/wt/$K/NEUTRAL/notes.md /tmp/wt/$K/NEUTRAL/equiv.py neutral/$K/ 2>/dev/null; git -C /repo worktree remove --force /tmp/wt/$K; fi
for f in neutral/$K/neutral_*.diff; do tools/try_neutral.sh $f "$@" 2>&1 | grep -v "^ M"; done
