#!/usr/bin/env bash
# Regression over every behaviour-preserving patch: every check named for its region must exit 0 without a VIOLATION line.
cd /verif
declare -A CH=( [N1]="C01 C02 C12 C15" [N2]="C03 C04 C05 C14" [N3]="C06 C07 C08" [N4]="C10 C11 C19" [N5]="C17 C09 C04 C03" [N6]="C16 C20" [N7]="C15 C12 C14 C01 C09 C04" [N8]="C13 C19 C08 C06 C07 C12" [own]="C03 C04 C05 C14" [M1]="C01 C02 C12 C15" [M2]="C03 C04 C05 C14" [M3]="C06 C07 C08 C10" [M4]="C19 C13 C08 C11" [M5]="C11 C10 C19 C09" [M6]="C16 C20 C12 C01" [M7]="C09 C15 C05 C12 C02 C14" [M8]="C17 C10 C11 C16 C05" )
for k in N1 N2 N3 N4 N5 N6 N7 N8 own M1 M2 M3 M4 M5 M6 M7 M8; do
  for f in neutral/$k/*.diff; do
    tools/try_neutral.sh $f ${CH[$k]} 2>&1 | grep -E "exit=|^VIOLATION|^UNDECIDED|^CHECKER" | cut -c1-200 | sed "s/^/$k /"
  done
done
