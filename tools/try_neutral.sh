#!/usr/bin/env bash
# usage: try_neutral.sh <patch file> <prop> [<prop> ...]  -- apply a behaviour-preserving patch to /repo, run the quick
# checks (all must exit 0 without a VIOLATION line), revert.  Evidence files are saved and restored.
mkdir -p /root/scratch; exec 9>/root/scratch/repo.lock; flock 9   # one user of /repo's working tree at a time
P="$(realpath "$1")"; shift
BK="$(mktemp -d /root/scratch/evbk.XXXX)"; cp -a /verif/evidence/. "$BK"/
git -C /repo apply "$P" || { echo "patch does not apply"; rm -rf "$BK"; exit 3; }
for p in "$@"; do ( cd /verif && ./check $p quick > /root/scratch/neutral_$p.out 2>&1; e=$?; grep -E "^(VIOLATION|UNDECIDED|CHECKER|NOTE|\[)" /root/scratch/neutral_$p.out | head -6 | cut -c1-260; echo "$(basename $P) $p exit=$e" ); done
git -C /repo checkout -- .
git -C /repo status --short | head -3
rm -rf /verif/evidence; mkdir -p /verif/evidence; cp -a "$BK"/. /verif/evidence/; rm -rf "$BK"
