#!/usr/bin/env bash
# usage: collect_mutant.sh <property> <round letter>   -- copy a sub-agent's deliverables from /tmp/wt/<P><r>/MUTANT to seeded/<P>_<r>/,
# confirm them in a fresh scratch worktree (tools/confirm_mutant.sh) and remove the agent's worktree.
P="$1"; R="$2"; SRC="/tmp/wt/${P}${R}/MUTANT"; DST="/verif/seeded/${P}_${R}"
[ -f "$SRC/patch.diff" ] || { echo "no patch in $SRC"; exit 3; }
mkdir -p "$DST"; cp "$SRC/patch.diff" "$SRC/demo.py" "$DST"/; cp "$SRC/notes.md" "$DST"/ 2>/dev/null
git -C /repo worktree remove --force "/tmp/wt/${P}${R}"
/verif/tools/confirm_mutant.sh "${P}_${R}" "$DST"
