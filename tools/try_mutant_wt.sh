#!/usr/bin/env bash
# usage: try_mutant_wt.sh <seeded dir> <prop> [...]  -- like try_mutant.sh, but the patch is applied to a scratch worktree of
# /repo's HEAD that is put first on PYTHONPATH (so /repo's working tree stays free for other runs).  Development convenience;
# the protocol of record is try_mutant.sh / all_mutants.sh (patch applied to /repo itself).
D="$(cd "$1" && pwd)"; shift
N="$(basename "$D")"; WT="/tmp/wt/mutrun_$N"
mkdir -p /root/scratch; exec 8>/root/scratch/evidence.lock; flock 8
BK="$(mktemp -d /root/scratch/evbk.XXXX)"; cp -a /verif/evidence/. "$BK"/
rm -rf "$WT"; git -C /repo worktree prune; git -C /repo worktree add --detach "$WT" HEAD -q || exit 3
git -C "$WT" apply "$D/patch.diff" || { echo "patch does not apply"; git -C /repo worktree remove --force "$WT"; rm -rf "$BK"; exit 3; }
for p in "$@"; do ( cd /verif && PYTHONPATH="$WT" ./check $p quick 2>&1 | grep -E "^(VIOLATION|UNDECIDED|CHECKER|KNOWN|NOTE|\[)" | head -8 | cut -c1-300; echo "exit=${PIPESTATUS[0]}" ); done
git -C /repo worktree remove --force "$WT"
rm -rf /verif/evidence; mkdir -p /verif/evidence; cp -a "$BK"/. /verif/evidence/; rm -rf "$BK"
