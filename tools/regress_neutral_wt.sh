#!/usr/bin/env bash
# usage: regress_neutral_wt.sh <lanes>   -- every behaviour-preserving patch under neutral/ is applied to its own scratch worktree
# (first on PYTHONPATH) and the checks listed for its region run with JXV_OUT pointing to scratch: each must exit 0 without a
# VIOLATION line.  Does not touch /repo or /verif/evidence.  Output: "<region>/<patch> <prop> exit=<n>".
LANES="${1:-2}"
cd /verif
mkdir -p /root/scratch/regress_n
one() {
  f="$1"; shift; k="$(basename "$(dirname "$f")")"; n="${k}_$(basename "$f" .diff)"; WT="/tmp/wt/regn_$n"; OUT="/root/scratch/regress_n/$n"
  rm -rf "$WT" "$OUT"; mkdir -p "$OUT"
  git -C /repo worktree add --detach "$WT" HEAD -q 2>/dev/null || { echo "$n worktree-failed"; return; }
  if git -C "$WT" apply "/verif/$f" 2>/dev/null; then
    for p in "$@"; do ( cd /verif && JXV_OUT="$OUT" JXV_NPROC=6 PYTHONPATH="$WT" ./check $p quick > "$OUT/$p.log" 2>&1; echo "$k/$(basename $f) $p exit=$? $(grep -cE '^(VIOLATION|CHECKER|UNDECIDED)' "$OUT/$p.log") alarm-lines" ); done
  else
    echo "$n patch-does-not-apply"
  fi
  git -C /repo worktree remove --force "$WT"
}
export -f one
# FOCUS=1 (default): per region the two checks whose contracts changed most recently; FOCUS=0: the full lists of tools/all_neutral.sh
if [ "${FOCUS:-1}" = "1" ]; then
declare -A CH=( [N1]="C01 C02" [N2]="C05 C14" [N3]="C08 C07" [N4]="C10 C11" [N5]="C09" [N6]="C16" [N7]="C15 C09" [N8]="C13 C19" [own]="C05 C14" [M1]="C01 C02" [M2]="C05 C14" [M3]="C08 C07" [M4]="C19 C13" [M5]="C11 C10" [M6]="C16" [M7]="C15 C09" [M8]="C10 C05" )
else
declare -A CH=( [N1]="C01 C02 C12 C15" [N2]="C03 C04 C05 C14" [N3]="C06 C07 C08" [N4]="C10 C11 C19" [N5]="C17 C09 C04 C03" [N6]="C16 C20" [N7]="C15 C12 C14 C01 C09 C04" [N8]="C13 C19 C08 C06 C07 C12" [own]="C03 C04 C05 C14" [M1]="C01 C02 C12 C15" [M2]="C03 C04 C05 C14" [M3]="C06 C07 C08 C10" [M4]="C19 C13 C08 C11" [M5]="C11 C10 C19 C09" [M6]="C16 C20 C12 C01" [M7]="C09 C15 C05 C12 C02 C14" [M8]="C17 C10 C11 C16 C05" )
fi
for k in "${!CH[@]}"; do for f in neutral/$k/*.diff; do echo "$f ${CH[$k]}"; done; done | xargs -P "$LANES" -L1 bash -c 'one "$@"' _
