#!/usr/bin/env bash
# Regression over every seeded change: the check of the property it breaks must exit 1 with a VIOLATION line.
cd /verif
for d in seeded/C*; do
  id=$(basename $d); p=${id%%_*}
  extra=""
  r=$(tools/try_mutant.sh $d $p 2>&1 | grep -E "^exit=|patch does not apply" | tr '\n' ' ')
  echo "$id $p $r"
done
