#!/usr/bin/env bash
# usage: confirm_mutant.sh <name> <dir with patch.diff and demo.py> [--no-tests]
# Confirms a seeded change in a fresh scratch worktree of /repo's HEAD: demo passes without it, fails with it,
# and the repository's test suite (minus the timing-only tests/test_regression.py) passes with it.
set -u
NAME="$1"; SRC="$(cd "$2" && pwd)"; NOTESTS="${3:-}"
WT="/tmp/wt/confirm_$NAME"
rm -rf "$WT"; git -C /repo worktree prune
git -C /repo worktree add --detach "$WT" HEAD -q || exit 3
mkdir -p "$WT/MUTANT"; cp "$SRC/demo.py" "$WT/MUTANT/demo.py"
cd "$WT"
PYTHONPATH="$WT" /venv/bin/python MUTANT/demo.py > "$SRC/confirm_demo_without.log" 2>&1; A=$?
git apply "$SRC/patch.diff" || { echo "$NAME: patch does not apply"; git -C /repo worktree remove --force "$WT"; exit 3; }
PYTHONPATH="$WT" /venv/bin/python MUTANT/demo.py > "$SRC/confirm_demo_with.log" 2>&1; B=$?
T="skipped"
if [ "$NOTESTS" != "--no-tests" ]; then
  PYTHONPATH="$WT" /venv/bin/python -m pytest -q -p no:cacheprovider --timeout=900 -n 5 --deselect tests/test_regression.py > "$SRC/confirm_tests.log" 2>&1
  T="$(tail -1 "$SRC/confirm_tests.log")"
fi
cd /; git -C /repo worktree remove --force "$WT"
echo "$NAME: demo_without_exit=$A demo_with_exit=$B tests: $T" | tee "$SRC/confirm_summary.txt"
