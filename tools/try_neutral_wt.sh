#!/usr/bin/env bash
# usage: try_neutral_wt.sh <patch file> <prop> [...]  -- like try_neutral.sh, but the patch is applied to a scratch worktree of
# /repo's HEAD that is put first on PYTHONPATH (so /repo's working tree stays free for other runs).  Development convenience.
P="$(realpath "$1")"; shift
N="$(basename "$(dirname "$P")")_$(basename "$P" .diff)"; WT="/tmp/wt/neurun_$N"
mkdir -p /root/scratch; exec 8>/root/scratch/evidence.lock; flock 8
BK="$(mktemp -d /root/scratch/evbk.XXXX)"; cp -a /verif/evidence/. "$BK"/
rm -rf "$WT"; git -C /repo worktree prune; git -C /repo worktree add --detach "$WT" HEAD -q || exit 3
git -C "$WT" apply "$P" || { echo "patch does not apply"; git -C /repo worktree remove --force "$WT"; rm -rf "$BK"; exit 3; }
for p in "$@"; do ( cd /verif && PYTHONPATH="$WT" ./check $p quick > /root/scratch/neutral_$p.out 2>&1; e=$?; grep -E "^(VIOLATION|UNDECIDED|CHECKER|NOTE|\[)" /root/scratch/neutral_$p.out | head -6 | cut -c1-260; echo "$(basename $P) $p exit=$e" ); done
git -C /repo worktree remove --force "$WT"
rm -rf /verif/evidence; mkdir -p /verif/evidence; cp -a "$BK"/. /verif/evidence/; rm -rf "$BK"
