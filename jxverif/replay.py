"""E3 - re-run a recorded counterexample natively against /repo's current working tree."""
import importlib
import json
import sys


def replay_file(path):
    p = json.load(open(path))
    kind = p.get("kind", "kernel")
    print(f"replay of {p.get('obligation')} (property {p.get('property')}, kind {kind})")
    if kind == "kernel":
        from .props import common
        reg = importlib.import_module(p.get("registry", "jxverif.kernels")).REG
        target = p.get("replay", {}).get("target") or p.get("target")
        if target not in reg:
            print("no contract for", target)
            return 3
        info = common.replay_kernel(reg[target], p["obligation"], p.get("model", {}))
    else:
        mod = importlib.import_module(p["replay_module"])
        info = getattr(mod, p.get("replay_fn", "replay"))(p)
    print(json.dumps(info, indent=1, default=str))
    if info.get("reproduced"):
        print("REPRODUCED: the real code violates the obligation at this input")
        return 1
    print("not reproduced on the current tree")
    return 0
