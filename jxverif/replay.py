"""E3 - re-run a recorded counterexample natively against /repo's current working tree."""
import importlib
import json
import sys


def replay_file(path):
    p = json.load(open(path))
    kind = p.get("kind", "kernel")
    print(f"replay of {p.get('obligation')} (property {p.get('property')}, kind {kind})")
    if kind == "kernel":
        from .props import common
        reg = importlib.import_module(p.get("registry", "jxverif.kernels")).REG
        target = p.get("replay", {}).get("target") or p.get("target")
        if target not in reg:
            print("no contract for", target)
            return 3
        info = common.replay_kernel(reg[target], p["obligation"], p.get("model", {}))
    else:
        modname = p.get("replay_module") or f"jxverif.props.{p.get('property')}"
        try:
            mod = importlib.import_module(modname)
            fn = getattr(mod, p.get("replay_fn", "replay"), None)
        except Exception:
            fn = None
        if fn is None:
            print(json.dumps({k: p.get(k) for k in ("obligation", "solver", "solver_output", "replay")}, indent=1, default=str)[:3000])
            print("no native replay is defined for this obligation: the file carries the failed obligation and the verifier's output (no-failing-input-found)")
            return 0
        info = fn(p)
    print(json.dumps(info, indent=1, default=str))
    if info.get("reproduced"):
        print("REPRODUCED: the real code violates the obligation at this input")
        return 1
    print("not reproduced on the current tree")
    return 0
