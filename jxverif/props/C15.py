"""C15 - simulations converge to cable theory at the expected order.

The limit itself is not decidable by a contract.  Decided here, for all real parameter values (z3), is one-step
CONSISTENCY with the exact constants - which is what fixes the physical units:

  * uniform cable: the coupling coefficient built by the real compute_axial_conductances equals the centred second
    difference of (d/4R_a) d2V/dx2 divided by c_m, with um / ohm cm / uF/cm2 converted exactly (the factor 1e7)
  * zero-flux (sealed) ends: end compartments couple to their single neighbour only
  * single compartment with a leak: the real Module.step (bwd_euler / crank_nicolson) is the scheme's update of
    tau dV/dt = -(V - E) + R I with tau = c_m/(1000 g) ms and R I = I*100/(2 pi r l g) mV  (S/cm2, nA, um)
  * fixed point under constant current: V = E + I/(g*A), A = 2 pi r l 1e-8 cm2
  * a cable split over branches is the same cable (branch-point elimination lemma), and every backend - also for a cable inside
    a network whose cells differ in depth - returns the solution of the physical system (the C01 chain on those structures)
Second order in dx and first/second order in dt then follow from the standard theorems for these schemes (cited).
"""
from __future__ import annotations

import traceback

import numpy as np
import z3

from ..core import Check, run_units

PID = "C15"


def worker(arg):
    tier, canary = arg
    from . import common
    undo = common.apply_canary(*canary) if canary else None
    try:
        return _worker(tier)
    finally:
        if undo:
            undo()


def _worker(tier):
    import jaxley as jx
    from jaxley.channels import Leak
    from .. import chain as CH
    from .. import discharge as D
    from ..modsym import SymModule
    from ..specs import cable
    from ..sym import Ctx, Runtime, Sym, SymArray
    from . import C01
    out = {"results": [], "error": "", "reached": {}}

    def prove(name, hyps, goal):
        out["results"].append(D.prove(name, hyps, goal, use_cvc5=False).to_json())

    def structural(name, ok, detail=""):
        out["results"].append({"name": name, "status": "proved" if ok else "refuted", "backend": "structural", "time_s": 0.0, "model": {}, "detail": detail})
    try:
        # ---- uniform cable of n compartments: coefficients of the assembled operator
        for n in (2, 3, 5):
            cells = [([-1], [n])]
            module = C01.build_module(cells)
            topo = cable.Topology(cells)
            Ctx.reset()
            r, l, ra, cm, dt = (Sym(z3.Real(k)) for k in ("r", "dx", "Ra", "cm", "dt"))
            rep = lambda s: SymArray(np.asarray([s] * n, dtype=object))
            mk = lambda nm: SymArray(np.asarray([Sym(z3.Real(f"{nm}{i}")) for i in range(n)], dtype=object))
            P = {"radius": rep(r), "length": rep(l), "axial_resistivity": rep(ra), "capacitance": rep(cm), "a": rep(Sym(0)), "c": rep(Sym(0)), "v": mk("v")}
            A = CH.assemble_sparse(module, topo, P, dt)
            out["reached"].update(A["reached"])
            pos = [x.e > 0 for x in (r, l, ra, cm, dt)]
            # cable equation: c_m dV/dt = (d / (4 R_a)) d2V/dx2 ;  d = 2 r um = 2r*1e-4 cm ; dx um = dx*1e-4 cm ; result S/cm2 -> *1e3 mS/cm2
            D_coef = (2 * r * Sym(10) ** -4) / (4 * ra) / ((l * Sym(10) ** -4) * (l * Sym(10) ** -4)) * 1000 / cm      # 1/ms
            for i in range(n):
                nb = [j for j in (i - 1, i + 1) if 0 <= j < n]
                for j in nb:
                    prove(f"uniform cable n={n}:coupling ({i},{j}) == -dt*(d/4Ra)/dx^2/cm (centred second difference, units um/ohm cm/uF/cm2)", pos,
                          A["M"][i].get(j, Sym(0)).e == (-(dt * D_coef)).e)
                prove(f"uniform cable n={n}:diagonal {i} == 1 + {len(nb)}*dt*(d/4Ra)/dx^2/cm ({'sealed end' if len(nb) == 1 else 'interior'})", pos,
                      A["M"][i].get(i, Sym(0)).e == (Sym(1) + len(nb) * dt * D_coef).e)
                structural(f"uniform cable n={n}:row {i} couples only to its neighbours (zero flux beyond the ends)", sorted(c for c, s in A["M"][i].items() if s.c != 0) == sorted(nb + [i]))
        # ---- a cable split over branches is the SAME cable: eliminating the zero-capacitance branch-point node from the physical
        # system of a chain [-1, 0] with n + n uniform compartments gives exactly the rows of the unbranched 2n-compartment cable
        for n in (1, 2, 3):
            Ctx.reset()
            r, l, ra, cm, dt = (Sym(z3.Real(k)) for k in ("r", "dx", "Ra", "cm", "dt"))
            N2 = 2 * n
            rep = lambda s: SymArray(np.asarray([s] * N2, dtype=object))
            mk = lambda nm: SymArray(np.asarray([Sym(z3.Real(f"{nm}{i}")) for i in range(N2)], dtype=object))
            P = {"radius": rep(r), "length": rep(l), "axial_resistivity": rep(ra), "capacitance": rep(cm), "a": mk("a"), "c": mk("c"), "v": mk("v")}
            t_split, t_whole = cable.Topology([([-1, 0], [n, n])]), cable.Topology([([-1], [N2])])
            rows_s, rows_w = cable.system(t_split, P, dt), cable.system(t_whole, P, dt)
            pos = [x.e > 0 for x in (r, l, ra, cm, dt)] + D.PI_FACTS
            bp = t_split.N
            co_bp, _ = rows_s[bp]                      # sum_k G_k x_k - (sum_k G_k) x_bp = 0
            others = {k: g for k, g in co_bp.items() if k != bp}
            for i in range(N2):
                co, rhs = rows_s[i]
                elim = {k: v for k, v in co.items() if k != bp}
                if bp in co:
                    for k, g in others.items():        # x_bp = sum_k G_k x_k / (-co_bp[bp])
                        elim[k] = elim.get(k, Sym(0)) + co[bp] * g / (Sym(0) - co_bp[bp])
                cw, rw = rows_w[i]
                goal = z3.And(*[elim.get(k, Sym(0)).e == cw.get(k, Sym(0)).e for k in sorted(set(elim) | set(cw))], rhs.e == rw.e)
                prove(f"cable split over two branches n={n}+{n}:row {i} after eliminating the branch point == row {i} of the unbranched cable", pos, goal)
        # ---- every backend, with the cable inside a network next to a cell of different depth (the custom solvers merge the
        # cells' elimination schedules level by level): the real solver code returns the solution of the physical system
        nets = [[([-1], [2]), ([-1, 0], [2, 2])], [([-1, 0], [1, 2]), ([-1], [1])]] + ([] if tier == "quick" else [[([-1, 0, 1], [1, 1, 1]), ([-1], [2]), ([-1, 0], [2, 1])]])
        for cells in nets:
            module = C01.build_module(cells)
            topo = cable.Topology(cells)
            for be in ("jaxley.thomas", "jaxley.stone", "jax.sparse"):
                Ctx.reset()
                Pn = C01.sym_params(topo.N)
                dtn = Sym(z3.Real("dt"))
                tagn = f"{be};{C01.tag_of(cells)}"
                if be == "jax.sparse":
                    res, info = CH.run_sparse(module, topo, Pn, dtn, tagn, 30000)
                else:
                    res, info = CH.run_jaxley_chain(module, topo, Pn, dtn, be, tagn, 30000)
                    if info.get("refused"):
                        out.setdefault("refused", []).append(f"{tagn}: {info['refused']}")     # a backend may refuse a model (not a violation)
                out["results"] += res
                out["reached"].update(info.get("reached", {}))
        # ---- single compartment with a leak: the real Module.step
        comp = jx.Compartment()
        comp.insert(Leak())
        comp.stimulate(np.ones(2) * 0.1, verbose=False)
        for solver in ("bwd_euler", "crank_nicolson", "fwd_euler"):
            Ctx.reset()
            sm = SymModule(comp, stub_solver=False)
            params, states = sm.prepare()
            I = Sym(z3.Real("I"))
            new = sm.step(externals={"i": SymArray(np.asarray([I], dtype=object))}, external_inds={"i": np.asarray([0])}, solver=solver)
            out["reached"].update(sm.rt.reached)
            v, g, E, cm, r, l = (sm.nodes[k][0] for k in ("v", "Leak_gLeak", "Leak_eLeak", "capacitance", "radius", "length"))
            dt = sm.dt
            pos = [x.e > 0 for x in (g, cm, r, l, dt)] + D.PI_FACTS
            tau = cm / (1000 * g)                                  # ms  (uF/cm2 / (S/cm2) = us -> /1000 ms)
            RI = I * 100 / (2 * cable.PI * r * l * g)              # mV  (nA / (S/cm2 * um2): 1e-9 A / (S * 1e-8) = 0.1 V ... = *100 mV)
            defs = [Ctx.defs[k][1] for k in sorted(new["v"][0].d)]
            for k, dcond in enumerate(defs):
                prove(f"single compartment {solver}:denominator #{k} non-zero", pos, dcond)
            if solver == "bwd_euler":
                want = (v + dt / tau * (E + RI)) / (1 + dt / tau)
            elif solver == "crank_nicolson":
                want = ((1 - dt / (2 * tau)) * v + dt / tau * (E + RI)) / (1 + dt / (2 * tau))
            else:
                want = v + dt / tau * (E + RI - v)
            prove(f"single compartment {solver}:real Module.step == scheme update of tau dV/dt = -(V-E) + R I, tau = cm/(1000 g) ms, R I = 100 I/(2 pi r l g) mV",
                  pos + defs, new["v"][0].e == want.e)
            # fixed point under constant current
            A_cm2 = cable.area(r, l)
            vstar = E + I * Sym(10) ** -6 / (g * A_cm2)             # nA / (S/cm2 * cm2) = 1e-9 V = 1e-6 mV
            prove(f"single compartment {solver}:V* = E + I/(g*A) (mV; I nA, g S/cm2, A = 2 pi r l 1e-8 cm2) is the fixed point",
                  pos + defs + [v.e == vstar.e], new["v"][0].e == v.e)
    except Exception as e:
        out["error"] = f"{type(e).__name__}: {e}\n{traceback.format_exc(limit=8)}"
    return out


CANARIES = [
    ("jaxley.utils.cell_utils:compute_coupling_cond", "src", "/ l1 * 10**7", "/ l1 * 10**4"),
    ("jaxley.modules.base:Module._channel_currents", "src", "voltage_term * 1000.0", "voltage_term * 100.0"),
    ("jaxley.utils.cell_utils:convert_point_process_to_distributed", "src", "100_000", "1_000_000"),
]


def dt_worker(tier):
    from .. import ufterm as U
    from . import e4
    from .C08 import _res
    out = {"results": [], "error": ""}
    try:
        fns = U.real_functions()
        for sc in e4.fine_dt_scenarios():
            lab = sc.label()
            o = e4.run_integrate(sc, fns)
            if "exception" in o:
                if o.get("engine_limit"):
                    out["results"].append({"name": f"integrate:every step is taken with the caller's delta_t[{lab}]", "status": "unknown", "backend": "euf", "time_s": 0.0, "model": {}, "detail": "engine limit: " + o["exception"][:300]})
                else:
                    out["results"].append(_res(f"integrate:accepts the scenario[{lab}]", False, o["exception"]))
                continue
            ok, d = e4.recs_match(o["recs"], sc, e4.spec_for(sc))
            out["results"].append(_res(f"integrate:t_max // dt + 1 columns, column k = k steps of the step function with exactly the caller's delta_t = {sc.dt} ms[{lab}]", ok, d))
            if not ok:
                out["results"][-1]["model"] = {"scenario": e4.scenario_dict(sc)}
    except Exception as e:
        out["error"] = f"{type(e).__name__}: {e}\n{traceback.format_exc(limit=8)}"
    return out


def native_dt():
    """native replay: RC relaxation of a Leak compartment with dt = 0.00625 ms against the exact backward-Euler recursion"""
    try:
        import jax
        jax.config.update("jax_enable_x64", True)
        import jaxley as jx
        from jaxley.channels import Leak
        comp = jx.Compartment()
        comp.insert(Leak())
        comp.set("v", -50.0)
        comp.record("v", verbose=False)
        dt, t_max = 0.00625, 0.5
        v = np.asarray(jx.integrate(comp, delta_t=dt, t_max=t_max))[0]
        g, e, cm = float(comp.nodes.Leak_gLeak[0]), float(comp.nodes.Leak_eLeak[0]), float(comp.nodes.capacitance[0])
        a = g * 1000.0 / cm * dt                    # S/cm2 -> mS/cm2 over uF/cm2 = 1/ms
        want = [-50.0]
        for _ in range(int(t_max // dt + 1) + 1):
            want.append((want[-1] + a * e) / (1 + a))
        n = min(len(v), len(want))
        d = float(np.max(np.abs(np.asarray(want[:n]) - v[:n])))
        return {"input": f"Leak compartment, dt = {dt} ms, t_max = {t_max} ms", "columns": int(len(v)), "expected_columns": len(want), "max_abs_difference_mV": d,
                "reproduced": bool(d > 1e-9)}
    except Exception as e:
        return {"reproduced": False, "reason": f"{type(e).__name__}: {str(e)[:160]}"}


def replay_dt(p):
    m = p.get("model") or {}
    if m.get("scenario"):
        from . import e4 as _e4
        return _e4.native_replay(m["scenario"])
    return native_dt()


def main(tier):
    ck = Check(PID, tier)
    outs = run_units("jxverif.props.C15", "worker", [(tier, None)] + [("quick", c) for c in CANARIES])
    o = outs[0]
    if o[0] != "ok" or o[1]["error"]:
        ck.error(str(o[1] if o[0] != "ok" else o[1]["error"])[:800])
    else:
        nviol = 0
        rp_cache = {}
        for r in o[1]["results"]:
            ck.add(r)
            if r["status"] == "refuted" and nviol < 12:
                nviol += 1
                rp, extra = {"reproduced": False}, {}
                if ";tree=" in r["name"] and r["name"].rstrip().endswith("]"):
                    # obligation of the solver chain on a network structure: native replay as in C01 (all backends against a dense
                    # solve of the physical system, random positive parameters)
                    from . import C01
                    tag = r["name"].split("[")[-1].rstrip("]").split(";", 1)[1]
                    cells = [([int(x) for x in part.split(";")[0][len("tree="):].split(".")], [int(x) for x in part.split(";")[1][len("ncomp="):].split(".")]) for part in tag.split("|")]
                    if tag not in rp_cache:
                        try:
                            rp_cache[tag] = C01.native_compare(cells)
                        except Exception as e:
                            rp_cache[tag] = {"reproduced": False, "reason": f"native construction/integration raised {type(e).__name__}: {str(e)[:100]}"}
                    rp, extra = rp_cache[tag], {"cells": cells, "replay_module": "jxverif.props.C01"}
                ck.violation(r["name"], {"solver": r["backend"], "solver_output": r["detail"], "model": r["model"], "kind": "c01" if extra else "c15", "replay": rp, **extra},
                             reproduced=rp.get("reproduced", False))
        ck.refused += o[1].get("refused", [])
        ck.extra["code_reached"] = {k: v for k, v in o[1]["reached"].items() if k.startswith("jaxley")}
        for f in ("jaxley.utils.cell_utils.compute_axial_conductances", "jaxley.utils.cell_utils.compute_coupling_cond", "jaxley.modules.base.Module.step",
                  "jaxley.modules.base.Module._channel_currents", "jaxley.modules.base.Module._get_external_input", "jaxley.utils.cell_utils.convert_point_process_to_distributed",
                  "jaxley.solver_voltage.step_voltage_implicit_with_jaxley_spsolve", "jaxley.solver_voltage.step_voltage_explicit", "jaxley.channels.pospischil.Leak.compute_current"):
            if not o[1]["reached"].get(f):
                ck.error(f"contract target {f} was never executed")
            ck.add_function(f, "body discharged" if not ck.violations else "body NOT discharged", o[1]["reached"].get(f, 0))
    # the one-step results above speak about Module.step(dt); that the k-th column of a simulation is k such steps with exactly
    # the CALLER's delta_t (on a refinement ladder dt0 / 2^k the step leaves every decimal grid) is a contract of the real
    # integrate, decided with the uninterpreted-step engine on time steps that are not multiples of 1e-4 ms (seeded change C15_f)
    outs_dt = run_units("jxverif.props.C15", "dt_worker", [tier])
    for o2 in outs_dt:
        if o2[0] != "ok" or o2[1]["error"]:
            ck.error(str(o2[1] if o2[0] != "ok" else o2[1]["error"])[:800])
            continue
        for r in o2[1]["results"]:
            ck.add(r)
            if r["status"] == "refuted":
                rp = native_dt()
                if not rp.get("reproduced") and (r.get("model") or {}).get("scenario"):
                    from . import e4 as _e4
                    rp = _e4.native_replay(r["model"]["scenario"])
                ck.violation(r["name"], {"solver": r["backend"], "solver_output": r["detail"], "kind": "c15", "replay_module": "jxverif.props.C15", "replay_fn": "replay_dt", "replay": rp, "model": r.get("model", {})},
                             reproduced=rp.get("reproduced", False))
        ck.add_function("jaxley.integrate.integrate (time axis: every step uses the caller's delta_t)", "body discharged" if not any(r["status"] == "refuted" for r in o2[1]["results"]) else "body NOT discharged", len(o2[1]["results"]))
    for can, oc in zip(CANARIES, outs[1:]):
        ref = oc[0] == "ok" and not oc[1]["error"] and any(r["status"] != "proved" for r in oc[1]["results"])
        ck.canary(f"{can[0]}: {can[2]!r} -> {can[3]!r}", ref, oc)
    ck.trusted = ["cited: centred differences are second-order accurate, backward Euler first order, Crank-Nicolson second order (Lax equivalence for these stable consistent schemes)",
                  "the closed-form solutions of the sealed cable / RC circuit themselves (not mechanised)", "jax.numpy primitive models, z3 nlsat"]
    ck.assumptions += ["what is proved is one-step consistency with exact constants (units); the asymptotic orders follow by cited theorems; input/transfer resistance of the sealed cable are not checked mechanically"]
    return ck.finish()
