"""C03 - gates stay finite and in [0,1] and follow the exact exponential update."""
from __future__ import annotations

from .. import kernels as K
from ..core import Check, run_units
from . import common

PID = "C03"
CANARIES = [
    # (contract target verified, (mutated function, kind, old, new), obligation substring expected to fail)
    ("jaxley.solver_gate:exponential_euler", ("jaxley.solver_gate:exponential_euler", "src", "x_inf * (1.0 - exp_term)", "x_inf * (1.0 + exp_term)")),
    ("jaxley.solver_gate:solve_gate_exponential", ("jaxley.solver_gate:solve_gate_exponential", "src", "xinf = alpha * tau", "xinf = beta * tau")),
    ("jaxley.channels.hh:HH.h_gate", ("jaxley.channels.hh:HH.h_gate", "src", "+ 1)", "- 1)")),
    ("jaxley.channels.pospischil:Km.p_gate", ("jaxley.channels.pospischil:Km.p_gate", "src", "3.3 * save_exp(0.05 * v_p) + save_exp", "3.3 * save_exp(0.05 * v_p) - save_exp")),
    ("jaxley.channels.hh:HH.update_states", ("jaxley.channels.hh:HH.update_states", "src", "solve_gate_exponential(n, dt, *self.n_gate(v))", "solve_gate_exponential(n * 2.0, dt, *self.n_gate(v))")),
]


def targets():
    return K.SOLVER_TARGETS + list(K.GATES) + K.UPDATE_TARGETS + K.SYN_TARGETS


def collect(ck: Check, outs, regmod="jxverif.kernels", replay=None):
    import importlib
    REG = importlib.import_module(regmod).REG
    for o in outs:
        if o[0] != "ok":
            ck.error(o[1])
            continue
        o = o[1]
        t = o["target"]
        if o["error"]:
            if o["error_kind"] == "api":
                # API-conformance obligation failed: the real code calls a JAX primitive with a signature the
                # installed JAX rejects -> the function raises for every input
                name = f"{t.replace('jaxley.', '').replace(':', '.')}:api"
                ck.add({"name": name, "status": "refuted", "backend": "api-conformance", "time_s": 0, "model": {}, "detail": o["error"]})
                rp = common.replay_kernel(REG[t], name, {})
                ck.violation(name, {"solver_output": o["error"], "replay": rp}, reproduced=rp.get("reproduced", False))
                ck.add_function(t, "body NOT discharged", 1)
            elif o["error_kind"] == "missing-optional":
                ck.notes.append(f"contract of the intermediate helper {t} skipped: the code no longer exists under this name ({o['error'][:120]}); its callers are verified through the code they now contain")
            elif o["error_kind"] in ("missing", "unsupported", "vacuous"):
                ck.error(f"{t}: {o['error_kind']}: {o['error']}")
            else:
                ck.error(f"{t}: real code raised under the symbolic runtime: {o['error'][:400]}")
            continue
        ok = True
        for r in o["results"]:
            ck.add(r)
            if r["status"] == "refuted":
                ok = False
                witness = {k: _num(v) for k, v in r["model"].items()}
                kf = ck.match_known(r["name"], witness)
                extra = {}
                if replay is not None and "init_state" in t:
                    rp, extra = replay(t, r)
                else:
                    rp = common.replay_kernel(REG[t], r["name"], r["model"])
                if kf:
                    ck.known_finding(kf)
                    r["status"] = "known-finding"
                    continue
                ck.violation(r["name"], dict({"solver": r["backend"], "solver_output": r["detail"], "model": r["model"], "replay": rp}, **extra),
                             reproduced=rp.get("reproduced", False))
            elif r["status"] != "proved":
                ok = False
        ck.add_function(t, "body discharged" if ok else "body NOT discharged", len(o["results"]))
        ck.extra.setdefault("code_reached", {}).update(o["reached"])
        for k, v in o["api_calls"].items():
            ck.extra.setdefault("primitive_calls", {})[k] = ck.extra.setdefault("primitive_calls", {}).get(k, 0) + v


def _num(s):
    from fractions import Fraction
    try:
        return float(Fraction(s))
    except Exception:
        return s


def run_all(ck, tier, ts, canaries, regmod="jxverif.kernels", strict=False, only=None, replay=None):
    """one pool for the contracts and the canaries"""
    args = [(regmod, "REG", t, tier, strict, only, None) for t in ts]
    args += [(regmod, "REG", t, "canary", strict, only, can) for t, can in canaries]
    outs = run_units("jxverif.props.common", "worker_verify", args)
    collect(ck, outs[:len(ts)], regmod=regmod, replay=replay)
    for (t, can), o in zip(canaries, outs[len(ts):]):
        name = f"{can[0]}: {can[2]!r} -> {can[3]!r}"
        refuted = o[0] == "ok" and (any(r["status"] != "proved" for r in o[1]["results"]) or o[1]["error_kind"] in ("api", "index"))
        ck.canary(name, refuted, o)


def main(tier):
    ck = Check(PID, tier)
    ts = targets()
    run_all(ck, tier, ts, CANARIES)
    ck.trusted = ["jax.numpy primitive models: clip, exp, where, abs (jxverif/sym.py)", "z3 4/5 nlsat + instantiated exp axioms (jxverif/discharge.py)"]
    ck.assumptions += [
        "domains: v in [-200,200] mV, dt in (0,1000] ms, states in [0,1], vt in [-80,-40], vx in [-10,10], taumax in [100,1e4], k_minus in [1e-3,10]",
        "Leak and TanhRateSynapse have no state: update_states returns {} (checked structurally)",
    ]
    return ck.finish()
