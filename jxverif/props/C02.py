"""C02 - axial coupling conserves charge, is reciprocal and never overshoots.

Obligations on the operator that the REAL assembly code builds (matrix denoted by the arrays handed to the sparse
solver; the custom solver's assembled view is proved equal to the same specification under C01), for all real
positive geometry / capacitance / membrane terms and all dt > 0, per enumerated structure:

  conservation : with D_i = cm_i * area_i there are branch-point multipliers mu such that  D^T M + mu^T M_bp  has NO
                 axial entry: column j sums to D_j (1 + dt a_j), branch-point columns to 0.  Hence for the solution x:
                 sum_i D_i (x_i - v_i) = dt * sum_i D_i (c_i - a_i x_i)   (injected minus membrane charge, nothing else)
  symmetry     : diag(D, mu) M is symmetric  (=> symmetric inverse [cited] => reciprocity of the response)
  uniform      : row sums are 1 + dt a_i (compartments) and 0 (branch points): a uniform potential stays uniform
  M-matrix     : off-diagonals <= 0, row sums >= 1  (with the row lemma below: no overshoot with backward Euler)
  stimulus     : the real _get_external_input / convert_point_process_to_distributed: I nA on compartment i adds exactly
                 I*dt of charge (pC) to D_i v_i; several stimuli on one compartment add
  row lemma    : discrete maximum principle for one M-row with up to K neighbours (generic, proved once)
"""
from __future__ import annotations

import time
import traceback

import numpy as np
import z3

from ..core import Check, run_units
from . import C01

PID = "C02"


def structures(tier, seed=0):
    import itertools
    S = []
    nmax, vals = (3, (1, 2)) if tier == "quick" else (4, (1, 2, 3))
    for n in range(1, nmax + 1):
        for par in C01.trees(n):
            for nc in itertools.product(vals, repeat=n):
                S.append([(par, list(nc))])
    S += [[([-1], [4])], [([-1, 0, 0, 1], [2, 1, 2, 2])], [([-1, 0, 0, 1, 1, 3], [3, 2, 2, 1, 1, 2])],
          [([-1], [2]), ([-1, 0, 0], [2, 2, 2])], [([-1, 0, 0], [2, 1, 3]), ([-1, 0], [1, 2])], [([-1], [1]), ([-1], [1])]]
    if tier != "quick":
        rng = np.random.default_rng(seed)
        for _ in range(60):
            n = int(rng.integers(2, 8))
            par = [-1] + [int(rng.integers(0, i)) for i in range(1, n)]
            S.append([(par, [int(x) for x in rng.integers(1, 5, size=n)])])
    return S


def worker(arg):
    cells, tier = arg[:2]
    canary = arg[2] if len(arg) > 2 else None
    from . import common
    undo = common.apply_canary(*canary) if canary else None
    try:
        return _worker(cells, tier)
    finally:
        if undo:
            undo()


def _worker(cells, tier):
    from .. import chain as CH
    from .. import discharge as D
    from ..specs import cable
    from ..sym import Ctx, Proxy, Runtime, Sym, SymArray
    tag = C01.tag_of(cells)
    out = {"tag": tag, "cells": cells, "results": [], "refused": [], "error": "", "reached": {}}
    tmo = 30000 if tier == "quick" else 120000

    def prove(name, hyps, goal):
        r = D.prove(f"{name}[{tag}]", hyps, goal, timeout_ms=tmo, use_cvc5=False)
        out["results"].append(r.to_json())

    def structural(name, ok, detail=""):
        out["results"].append({"name": f"{name}[{tag}]", "status": "proved" if ok else "refuted", "backend": "structural", "time_s": 0.0, "model": {}, "detail": detail})
    try:
        module = C01.build_module(cells)
        topo = cable.Topology(cells)
        Ctx.reset()
        P = C01.sym_params(topo.N)
        dt = Sym(z3.Real("dt"))
        A = CH.assemble_sparse(module, topo, P, dt)
        out["reached"].update(A["reached"])
        M, N, n = A["M"], topo.N, A["n_nodes"]
        structural("Module._init_morph_jax_spsolve:nodes = compartments + one branch point per branching parent", A["ok_nodes"])
        if not A["ok_nodes"]:
            return out
        pos = [dt.e > 0] + [s.e > 0 for k in ("radius", "length", "axial_resistivity", "capacitance") for s in P[k]] + [s.e >= 0 for s in P["a"]] + D.PI_FACTS
        Dw = [P["capacitance"][i] * cable.area(P["radius"][i], P["length"][i]) for i in range(N)]      # uF
        bps = list(range(N, n))
        zero = Sym(0)
        # branch-point multipliers from the branch-point column itself
        mu = {}
        for bp in bps:
            colsum = sum((Dw[i] * M[i].get(bp, zero) for i in range(N)), zero)
            prove(f"axial operator:branch point {bp} row has a non-zero diagonal", pos, M[bp].get(bp, zero).e != 0)
            mu[bp] = -colsum / M[bp].get(bp, zero)
        hy = pos + [M[bp].get(bp, zero).e != 0 for bp in bps]
        for j in range(n):
            tot = sum((Dw[i] * M[i].get(j, zero) for i in range(N)), zero) + sum((mu[bp] * M[bp].get(j, zero) for bp in bps), zero)
            want = Dw[j] * (Sym(1) + dt * P["a"][j]) if j < N else zero
            prove(f"charge conservation:weighted column {j} of the assembled operator carries no axial term", hy, tot.e == want.e)
        tb = sum((Dw[i] * A["b"][i] for i in range(N)), zero) + sum((mu[bp] * A["b"][bp] for bp in bps), zero)
        wantb = sum((Dw[i] * (P["v"][i] + dt * P["c"][i]) for i in range(N)), zero)
        prove("charge conservation:weighted right-hand side is sum D_i (v_i + dt c_i)", hy, tb.e == wantb.e)
        # symmetry of diag(D, mu) M
        for i in range(n):
            for j in range(i + 1, n):
                a_ij, a_ji = M[i].get(j, zero), M[j].get(i, zero)
                if a_ij.c == 0 and a_ji.c == 0:
                    continue
                wi = Dw[i] if i < N else mu[i]
                wj = Dw[j] if j < N else mu[j]
                prove(f"reciprocity:diag(D,mu)*M symmetric at ({i},{j})", hy, (wi * a_ij).e == (wj * a_ji).e)
        # row sums, signs
        for i in range(n):
            rs = sum(M[i].values(), zero)
            prove(f"uniform stays uniform:row {i} sums to {'1 + dt a_i' if i < N else '0'}", hy, rs.e == ((Sym(1) + dt * P["a"][i]) if i < N else zero).e)
            offs = [s for c, s in M[i].items() if c != i]
            if offs:
                prove(f"M-matrix:row {i} off-diagonals have the sign of a {'compartment' if i < N else 'branch-point'} row", hy,
                      z3.And(*[(s.e <= 0) if i < N else ((s.e >= 0) if True else None) for s in offs]) if i < N else
                      z3.Or(z3.And(*[s.e >= 0 for s in offs]), z3.And(*[s.e <= 0 for s in offs])))
        for bp in bps:
            prove(f"branch point {bp}:multiplier is non-zero (reciprocity scaling well defined)", hy, mu[bp].e != 0)
        # stimulus: real _get_external_input
        Ctx.reset()
        rt = Runtime()
        px = Proxy(module, rt)
        I0, I1, I2 = (Sym(z3.Real(f"I{k}")) for k in range(3))
        tgt = [N - 1, 0, N - 1]
        ext = px._get_external_input(P["v"], np.asarray(tgt), SymArray(np.asarray([I0, I1, I2], dtype=object)), P["radius"], P["length"])
        out["reached"].update(rt.reached)
        inj = [zero] * N
        for t, I in zip(tgt, (I0, I1, I2)):
            inj[t] = inj[t] + I
        for i in range(N):
            # uA/cm2 * cm2 * ms = nC ; I nA * dt ms = pC = 1e-3 nC
            charge = ext[i] * cable.area(P["radius"][i], P["length"][i]) * dt
            prove(f"stimulus:compartment {i} receives exactly (sum of its stimuli)*dt of charge, whatever its geometry", pos,
                  charge.e * 1000 == (inj[i] * dt).e)
    except Exception as e:
        out["error"] = f"{type(e).__name__}: {e}\n{traceback.format_exc(limit=8)}"
    return out


def lemma_worker(tier):
    """discrete maximum principle for one row with K neighbours: (1+dt a + sum w) x_i - sum w_j x_j = v_i + dt a E_i,
    w_j >= 0, x_i >= x_j for all j  =>  x_i <= max(v_i, E_i); and dually for the minimum; a branch-point row makes the
    branch-point value a weighted mean of its neighbours."""
    from .. import discharge as D
    out = {"tag": "lemma", "results": [], "refused": [], "error": "", "reached": {}, "cells": []}
    for K in (1, 2, 3, 4, 5):
        x, v, E, a, dt = z3.Reals("x v E a dt")
        w = [z3.Real(f"w{j}") for j in range(K)]
        y = [z3.Real(f"y{j}") for j in range(K)]
        row = (1 + dt * a + sum(w)) * x - sum(wj * yj for wj, yj in zip(w, y)) == v + dt * a * E
        base = [dt > 0, a >= 0] + [wj >= 0 for wj in w] + [row]
        mx = z3.If(v >= E, v, E)
        mn = z3.If(v <= E, v, E)
        out["results"].append(D.prove(f"lemma:maximum principle for a compartment row with {K} neighbours", base + [x >= yj for yj in y], x <= mx, use_cvc5=False).to_json())
        out["results"].append(D.prove(f"lemma:minimum principle for a compartment row with {K} neighbours", base + [x <= yj for yj in y], x >= mn, use_cvc5=False).to_json())
        xb = z3.Real("xb")
        bp = sum(wj * (yj - xb) for wj, yj in zip(w, y)) == 0
        out["results"].append(D.prove(f"lemma:branch-point value with {K} neighbours does not exceed all of them", [wj > 0 for wj in w] + [bp] + [xb >= yj for yj in y],
                                      z3.And(*[xb == yj for yj in y]), use_cvc5=False).to_json())
    return out


CANARIES = [
    ("jaxley.utils.cell_utils:compute_axial_conductances", "src", "params[\"axial_resistivity\"][source_comp_inds],\n                params[\"length\"][sink_comp_inds]", "params[\"axial_resistivity\"][sink_comp_inds],\n                params[\"length\"][sink_comp_inds]"),
    ("jaxley.utils.cell_utils:compute_coupling_cond", "src", "return rad1 * rad2**2 /", "return rad1**2 * rad2**2 /"),
    ("jaxley.utils.cell_utils:convert_point_process_to_distributed", "src", "100_000", "10_000"),
    ("jaxley.utils.cell_utils:compute_impact_on_node", "src", "rad**2 / r_a / l", "rad / r_a / l"),
]
CANARY_STRUCT = [([-1, 0, 0], [2, 2, 2])]


def native_synaptic_charge():
    """native replay: two single-compartment cells, one IonotropicSynapse onto a compartment with capacitance 2.5, one backward
    Euler step; charge balance area*cm*(v1 - v0) = -dt * I_syn(v1) on the postsynaptic compartment (leak-free, no stimulus)"""
    try:
        import jax
        jax.config.update("jax_enable_x64", True)
        import jaxley as jx
        from jaxley.connect import connect
        from jaxley.synapses import IonotropicSynapse
        comp = jx.Compartment()
        net = jx.Network([jx.Cell([jx.Branch(comp, ncomp=1)], parents=[-1]) for _ in range(2)])
        connect(net.cell(0).branch(0).comp(0), net.cell(1).branch(0).comp(0), IonotropicSynapse())
        net.set("IonotropicSynapse_s", 0.5)
        net.set("IonotropicSynapse_k_minus", 0.0)
        net.set("IonotropicSynapse_gS", 1e-3)
        net.cell(0).set("v", -90.0)          # far below threshold: s stays (almost) constant
        net.cell(1).set("v", -70.0)
        net.cell(1).set("capacitance", 2.5)
        net.cell(1).branch(0).comp(0).record("v", verbose=False)
        net.IonotropicSynapse.record("IonotropicSynapse_s", verbose=False)
        dt = 0.025
        out = np.asarray(jx.integrate(net, delta_t=dt, t_max=dt, voltage_solver="jax.sparse"))
        v0, v1, s1 = float(out[0, 0]), float(out[0, 1]), float(out[1, 1])
        r, l, cm = float(net.nodes.radius[1]), float(net.nodes.length[1]), 2.5
        area_cm2 = 2 * np.pi * r * l * 1e-8
        dq_pC = area_cm2 * cm * (v1 - v0) * 1e3                     # uF*mV = nC = 1e3 pC
        e_syn = float(net.edges.IonotropicSynapse_e_syn[0])
        i_syn_nA = 1e-3 * s1 * (v1 - e_syn)                         # gS [uS] * s * (v - e) [mV] = nA  (gS = 1e-3 uS)
        want_pC = -dt * i_syn_nA                                    # nA * ms = pC
        rel = abs(dq_pC - want_pC) / max(abs(want_pC), 1e-30)
        return {"input": "IonotropicSynapse onto a compartment with capacitance 2.5 uF/cm2, one bwd_euler step", "charge_change_pC": dq_pC, "minus_dt_times_synaptic_current_pC": want_pC,
                "relative_difference": rel, "reproduced": bool(rel > 1e-3)}
    except Exception as e:
        return {"reproduced": False, "reason": f"{type(e).__name__}: {str(e)[:160]}"}


def replay_synaptic(p):
    return native_synaptic_charge()


def main(tier):
    ck = Check(PID, tier)
    S = structures(tier, ck.seed)
    outs = run_units("jxverif.props.C02", "worker", [(c, tier) for c in S] + [(CANARY_STRUCT, "quick", can) for can in CANARIES])
    outs_l = run_units("jxverif.props.C02", "lemma_worker", [tier])
    # the operator-level obligations speak about the solution only through "every backend returns the exact solution of the
    # assembled system" (C01).  That link is exercised here on structures that stress the custom solver's index logic, so that
    # this check stands alone: the C01 chain (Thomas/Stone code through the elimination contracts) on a few irregular trees.
    chain_structs = [[([-1, 0, 0, 2], [1, 1, 2, 1])], [([-1, 0, 0, 2, 2], [2, 1, 2, 2, 1])], [([-1, 0, 1, 1], [2, 1, 1, 2])], [([-1, 0, 0], [2, 1, 2]), ([-1, 0], [1, 2])],
                     # networks whose cells differ in tree depth (the level schedules of the cells are merged; seeded change C02_c)
                     [([-1, 0, 0], [1, 1, 1]), ([-1, 0, 0, 1, 1], [1, 1, 1, 1, 1])], [([-1, 0, 1], [2, 2, 2]), ([-1], [2])]]
    outs_c = run_units("jxverif.props.C01", "structure_worker", [(c, tier, ["jaxley.thomas", "jaxley.stone"]) for c in chain_structs])
    for o in outs_c:
        if o[0] != "ok" or o[1]["error"]:
            ck.error(str(o[1] if o[0] != "ok" else o[1]["error"])[:600])
            continue
        ck.refused += [f"{o[1]['tag']}: {r}" for r in o[1]["refused"]]
        bad = [r for r in o[1]["results"] if r["status"] == "refuted"]
        for r in o[1]["results"]:
            ck.add(r)
        if bad:
            rp = native_charge(o[1]["cells"])
            for r in bad[:3]:
                ck.violation(r["name"], {"solver": r["backend"], "solver_output": r["detail"], "model": r["model"], "cells": o[1]["cells"], "kind": "c02",
                                         "replay_module": "jxverif.props.C02", "replay": rp}, reproduced=rp.get("reproduced", False))
    # "... minus the charge carried by membrane AND SYNAPTIC currents": the membrane terms the real Module.step hands to the
    # solver contain, for every compartment, exactly the currents of the synapses listed onto it, converted with that compartment's
    # area and divided ONCE by its capacitance (symbolic, per compartment), with an exact linearisation in v_post - so that the
    # charge balance above, which is stated for arbitrary membrane terms, also accounts for the synaptic charge.  These are C09's
    # contracts on the real Network._synapse_currents / Module.step; two wirings with all synapse types are run here so that this
    # check stands alone (seeded change C02_e divides the synaptic terms by the capacitance twice).
    syn_w = [[(0, 3, "I"), (4, 1, "R"), (2, 4, "T")], [(1, 4, "T"), (3, 0, "I"), (0, 3, "I")]]
    outs_s = run_units("jxverif.props.C09", "worker", [([w], "canary" if tier == "quick" else tier, None) for w in syn_w])
    for o in outs_s:
        if o[0] != "ok" or o[1]["error"]:
            ck.error(str(o[1] if o[0] != "ok" else o[1]["error"])[:600])
            continue
        first = True
        for r in o[1]["results"]:
            r = dict(r)
            r["name"] = "synaptic charge:" + r["name"]
            ck.add(r)
            if r["status"] == "refuted" and first:
                first = False
                rp = native_synaptic_charge()
                ck.violation(r["name"], {"solver": r["backend"], "solver_output": r["detail"], "model": r.get("model", {}), "kind": "c02", "replay_module": "jxverif.props.C02",
                                         "replay_fn": "replay_synaptic", "replay": rp}, reproduced=rp.get("reproduced", False))
    n_struct, viol = 0, 0
    reached = {}
    for o in outs[:len(S)] + outs_l:
        if o[0] != "ok":
            ck.error(o[1][:500])
            continue
        o = o[1]
        if o["error"]:
            ck.error(f"{o['tag']}: {o['error'][:600]}")
            continue
        n_struct += 1
        bad = [r for r in o["results"] if r["status"] == "refuted"]
        for r in o["results"]:
            ck.add(r)
        if bad and viol < 30:
            rp = native_charge(o["cells"]) if o["cells"] else {"reproduced": False}
            for r in bad[:4]:
                ck.violation(r["name"], {"solver": r["backend"], "solver_output": r["detail"], "model": r["model"], "cells": o["cells"], "kind": "c02",
                                         "replay_module": "jxverif.props.C02", "replay": rp}, reproduced=rp.get("reproduced", False))
                viol += 1
        reached.update(o["reached"])
    for can, o in zip(CANARIES, outs[len(S):]):
        ref = o[0] == "ok" and not o[1]["error"] and any(r["status"] != "proved" for r in o[1]["results"])
        ck.canary(f"{can[0]}: {can[2][:40]!r} -> {can[3][:40]!r}", ref, o)
    for f in ["jaxley.utils.cell_utils.compute_axial_conductances", "jaxley.utils.cell_utils.compute_coupling_cond", "jaxley.utils.cell_utils.compute_coupling_cond_branchpoint",
              "jaxley.utils.cell_utils.compute_impact_on_node", "jaxley.solver_voltage.step_voltage_implicit_with_jax_spsolve", "jaxley.modules.base.Module._get_external_input",
              "jaxley.utils.cell_utils.convert_point_process_to_distributed"]:
        if reached.get(f, 0) == 0:
            ck.error(f"contract target {f} was never executed")
        ck.add_function(f, "body discharged" if not ck.violations else "body NOT discharged", reached.get(f, 0))
    ck.extra["code_reached"] = {k: v for k, v in reached.items() if k.startswith("jaxley")}
    ck.extra["structures"] = {"count": n_struct - 1, "bound": "quick: all trees <= 3 branches x ncomp in {1,2} + 6 deeper structures/networks; thorough: <= 4 branches x {1,2,3} + 60 seeded random"}
    ck.trusted = ["C01: every backend returns the exact solution of the assembled system", "cited: a symmetric nonsingular matrix has a symmetric inverse", "cited: maximum principle from the row lemma by the standard argument over the node attaining the extremum",
                  "jax.numpy primitive models, z3 nlsat", "specs/cable.py: area and unit factors"]
    ck.assumptions += ["passive membrane terms in the form c_i = a_i * E_i with a_i >= 0 for the uniform/no-overshoot clauses; dt any positive real (hence also (0, 1e9])"]
    return ck.finish()


def native_charge(cells, seed=0, dt=0.5):
    """E3: native check of charge conservation + reciprocity on a passive (channel-free) module with random geometry"""
    import jax
    jax.config.update("jax_enable_x64", True)
    import jaxley as jx
    rng = np.random.default_rng(seed)
    module = C01.build_module(cells)
    N = len(module.nodes)
    geo = {"radius": rng.uniform(0.5, 3.0, N), "length": rng.uniform(5.0, 40.0, N), "axial_resistivity": rng.uniform(500.0, 5000.0, N), "capacitance": rng.uniform(0.5, 2.0, N)}
    v0 = rng.uniform(-80.0, -40.0, N)
    for k, val in geo.items():
        module.nodes[k] = val
    module.nodes["v"] = v0
    module.delete_recordings()
    module.record("v", verbose=False)
    D = geo["capacitance"] * 2 * np.pi * geo["radius"] * geo["length"] * 1e-8
    info = {"cells": cells, "backends": {}}
    worst = 0.0
    for be in ("jaxley.thomas", "jax.sparse"):
        try:
            v1 = np.asarray(jx.integrate(module, delta_t=dt, t_max=dt, voltage_solver=be))[:, 1]
            drift = float(abs(np.sum(D * (v1 - v0))) / np.sum(D * np.abs(v0)))
            info["backends"][be] = {"relative_charge_drift_without_input": drift}
            worst = max(worst, drift)
        except Exception as e:
            info["backends"][be] = {"refused": f"{type(e).__name__}: {str(e)[:80]}"}
    info["reproduced"] = bool(worst > 1e-9)
    info["reason"] = f"relative drift of sum(cm*area*v) over one unstimulated passive step = {worst:.3e}"
    return info


def replay(p):
    return native_charge(p["cells"])
