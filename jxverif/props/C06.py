"""C06 - results do not depend on how the simulation is executed.

E4 (real integrate + nested_checkpoint_scan + _inner_nested_scan, uninterpreted step):
  * every checkpoint_lengths factorisation whose product covers the run returns the same recording TERMS as the plain
    call - for every step function, model and input value
  * integrate writes no attribute of the module, leaves externals / external_inds / recordings untouched, and a second
    call returns the identical terms (no hidden state)
Symbolic Module.step (real code, symbolic tables): the traced region writes only to its local state dict.
jit / vmap of a pure traceable function equal the eager call: JAX's contract (assumed).
"""
from __future__ import annotations

import traceback

import numpy as np

from ..core import Check, run_units
from . import e4
from .C08 import _res

PID = "C06"


def layouts_for(n, tier):
    mp = max(n + 1, 4) if tier == "quick" else max(n + 4, 12)
    L = e4.factorizations(n, mp, depth=3)
    # products far beyond the run (more padding than the run is long)
    for extra in ([2 * n + 1], [3, n], [2, 2, n]):
        if extra not in L:
            L.append(extra)
    return L


def scenario_list(tier):
    S = e4.scenarios(tier)
    pick = [s for s in S if (s.stims or s.clamps)]
    step = 9 if tier == "quick" else 2
    return pick[::step] + [s for s in S if not s.stims and not s.clamps][:1]


def worker(arg):
    tier, lo, hi, canary = arg
    from .. import ufterm as U
    from . import common
    out = {"results": [], "error": "", "refused": [], "layouts": 0}
    undo = common.apply_canary(*canary) if canary else None
    try:
        fns = U.real_functions()
        todo = scenario_list(tier)[lo:hi] if lo >= 0 else [
            e4.Scenario([(1, 0, "v"), (0, 0, "HH_m")], [("static", [(2, 1)], "a"), ("data", [(0, 0)], "b")], [("static", "v", (1, 0), "c")], T_len=3)]
        for sc in todo:
            lab = sc.label()
            plain = e4.run_integrate(sc, fns)
            if "exception" in plain:
                (out.setdefault("limits", []) if plain.get("engine_limit") else out["refused"]).append(f"{lab}: {plain['exception']}")
                continue
            n = sc.nsteps()
            P = np.asarray(plain["recs"], dtype=object)
            for cl in layouts_for(n, tier):
                o = e4.run_integrate(sc, fns, checkpoint_lengths=cl)
                out["layouts"] += 1
                if "exception" in o:
                    if o.get("engine_limit"):
                        out.setdefault("limits", []).append(f"{lab}: {o['exception']}")
                    else:
                        out["results"].append(_res(f"integrate:checkpoint_lengths={cl} (prod >= steps) accepted[{lab}]", False, o["exception"] + " | natively: " + o.get("native_exception", "")))
                    continue
                R = np.asarray(o["recs"], dtype=object)
                same = R.shape == P.shape and all(a == b for a, b in zip(R.reshape(-1), P.reshape(-1)))
                out["results"].append(_res(f"integrate:checkpoint_lengths={cl} returns the recordings of the plain call[{lab}]", same,
                                           "" if same else f"shape {R.shape} vs {P.shape}"))
                if not same:
                    out["results"][-1]["model"] = {"scenario": e4.scenario_dict(sc), "checkpoint_lengths": list(cl)}
                out["results"].append(_res(f"integrate:checkpoint_lengths={cl} frame - module untouched[{lab}]", not o["writes"] and o["frame_ok"], str(o["writes"])))
            # repetition on ONE module object: second call identical, module untouched in between
            cell, ds, dc = sc.build()
            m = U.E4Module(cell, sc.sy)
            kw = dict(delta_t=sc.dt, t_max=sc.t_max, solver=sc.solver, voltage_solver=sc.vs, data_stimuli=ds, data_clamps=dc)
            r1 = np.asarray(fns["integrate"](m, **kw), dtype=object)
            ok_mid = m.frame_ok() and not m._writes
            r2 = np.asarray(fns["integrate"](m, **kw), dtype=object)
            r3 = np.asarray(fns["integrate"](m, **{**kw, "data_stimuli": None, "data_clamps": None}), dtype=object) if (ds is not None or dc is not None) and (m.externals or sc.t_max) else None
            same = r1.shape == r2.shape and all(a == b for a, b in zip(r1.reshape(-1), r2.reshape(-1)))
            out["results"].append(_res(f"integrate:repeated call on the same module returns identical terms; externals, external_inds untouched[{lab}]",
                                       same and ok_mid and m.frame_ok() and not m._writes, str(m._writes)))
            rec_same = cell.recordings.equals(sc.build()[0].recordings)
            out["results"].append(_res(f"integrate:recordings table untouched[{lab}]", rec_same))
    except Exception as e:
        out["error"] = f"{type(e).__name__}: {e}\n{traceback.format_exc(limit=8)}"
    finally:
        if undo:
            undo()
    return out


def purity_worker(tier):
    """the traced region (Module.step and below) writes only to its local state dict: frame log of the symbolic step"""
    import jax
    jax.config.update("jax_enable_x64", True)
    import jaxley as jx
    from jaxley.channels import HH
    from jaxley.connect import connect
    from jaxley.synapses import IonotropicSynapse
    from ..modsym import SymModule
    from ..sym import Ctx
    out = {"results": [], "error": "", "refused": [], "reached": {}}
    try:
        comp = jx.Compartment()
        cell = jx.Cell([jx.Branch(comp, ncomp=n) for n in (2, 1)], parents=[-1, 0])
        cell.insert(HH())
        net = jx.Network([cell, cell])
        connect(net.cell(0).branch(0).comp(0), net.cell(1).branch(1).comp(0), IonotropicSynapse())
        for name, mod in (("cell", cell), ("network", net)):
            Ctx.reset()
            sm = SymModule(mod)
            sm.prepare()
            w0 = list(sm.px._writes)
            st_in = dict(sm.states)
            ids_before = {k: id(v) for k, v in st_in.items()}
            new = sm.step(states=st_in)
            writes = sm.px._writes[len(w0):]
            out["results"].append(_res(f"Module.step[{name}]:writes no attribute of the module (frame log)", not writes, str(writes), backend="structural"))
            out["results"].append(_res(f"Module.prepare[{name}]:to_jax / get_all_parameters / get_all_states write only jaxnodes and jaxedges", set(w0) <= {"jaxnodes", "jaxedges"}, str(w0), backend="structural"))
            p_ids = {k: id(v) for k, v in sm.params.items()}
            n_calls = len(sm.solver_calls)
            new2 = sm.step(states=dict(sm.states))
            # (the voltage solver is a contract stub that returns fresh symbols per call: compare its ARGUMENTS instead)
            k1, k2 = sm.solver_calls[n_calls - 1][1], sm.solver_calls[-1][1]
            same = all(str(new[k][i].e) == str(new2[k][i].e) for k in ("HH_m", "HH_h", "HH_n") for i in range(len(new["v"]))) and \
                all(str(k1[a][i].e) == str(k2[a][i].e) for a in ("voltage_terms", "constant_terms", "voltages") for i in range(len(new["v"])))
            out["results"].append(_res(f"Module.step[{name}]:a second step from the same state yields the identical terms (no hidden state); params dict entries not rebound",
                                       same and p_ids == {k: id(v) for k, v in sm.params.items()}, backend="structural"))
            out["reached"].update(sm.rt.reached)
        # inputs belong to the caller: the real init path (to_jax / get_all_parameters / get_all_states, reached from integrate's
        # init_fn via `pstate += param_state`) leaves a data_set param_state untouched, and using it again gives the same arrays
        # (interleaved synapse types: global edge index != rank within the type) - seeded change C06_c
        import copy
        import z3
        from jaxley.synapses import TestSynapse
        from ..sym import Sym, SymArray
        net3 = jx.Network([cell, cell, cell])
        connect(net3.cell(0).branch(0).comp(0), net3.cell(1).branch(1).comp(0), IonotropicSynapse())
        connect(net3.cell(1).branch(0).comp(1), net3.cell(2).branch(0).comp(0), TestSynapse())
        connect(net3.cell(2).branch(0).comp(0), net3.cell(0).branch(1).comp(0), IonotropicSynapse())
        for vname, vf, key in (("IonotropicSynapse.edge(1)", lambda n: n.IonotropicSynapse.edge(1), "IonotropicSynapse_gS"), ("TestSynapse.edge(0)", lambda n: n.TestSynapse.edge(0), "TestSynapse_gC"),
                               ("cell(1).branch(0)", lambda n: n.cell(1).branch(0), "HH_gNa")):
            ps = vf(net3).data_set(key, 0.5, None)
            X = Sym(z3.Real("X"))
            ps = [{"key": p["key"], "indices": p["indices"], "val": SymArray(np.asarray([X], dtype=object))} for p in ps]
            snap = [(p["key"], np.array(p["indices"], copy=True), id(p["indices"])) for p in ps]
            arrs = []
            for rep in range(3):
                Ctx.reset()
                sm = SymModule(net3)
                sm.prepare(pstate=ps)
                a = sm.params[key] if key in sm.params else sm.states[key]
                arrs.append([str(x.e) if isinstance(x, Sym) else repr(x) for x in np.asarray(a, dtype=object).reshape(-1)])
                out["reached"].update(sm.rt.reached)
            untouched = all(p["key"] == k0 and np.array_equal(np.asarray(p["indices"]), i0) for p, (k0, i0, _) in zip(ps, snap)) and len(ps) == len(snap)
            out["results"].append(_res(f"integrate init path[{vname}.{key}]:a data_set param_state is left untouched (keys, indices) by get_all_parameters / get_all_states", untouched,
                                       f"indices now {[np.asarray(p['indices']).tolist() for p in ps]}, were {[i0.tolist() for _, i0, _ in snap]}", backend="structural"))
            out["results"].append(_res(f"integrate init path[{vname}.{key}]:three uses of the same param_state give identical parameter arrays (repeated calls are identical)", arrs[0] == arrs[1] == arrs[2],
                                       f"{arrs[0]} / {arrs[1]} / {arrs[2]}", backend="structural"))
    except Exception as e:
        out["error"] = f"{type(e).__name__}: {e}\n{traceback.format_exc(limit=8)}"
    return out


CANARIES = [
    ("jaxley.utils.jax_utils:_inner_nested_scan", "src", "lengths[1:]", "lengths[:-1]"),
    ("jaxley.integrate:integrate", "src", "external_inds = module.external_inds.copy()\n\n    # If stimulus", "external_inds = module.external_inds\n\n    # If stimulus"),
    ("jaxley.integrate:integrate", "src", "length = prod(checkpoint_lengths)", "length = sum(checkpoint_lengths)"),
]


def main(tier):
    ck = Check(PID, tier)
    n = len(scenario_list(tier))
    chunks = [(tier, lo, lo + 1, None) for lo in range(n)]
    outs = run_units("jxverif.props.C06", "worker", chunks + [("quick", -1, 0, c) for c in CANARIES])
    outs_p = run_units("jxverif.props.C06", "purity_worker", [tier])
    nl = 0
    n_native = 0
    for o in outs[:len(chunks)] + outs_p:
        if o[0] != "ok" or o[1]["error"]:
            ck.error(str(o[1] if o[0] != "ok" else o[1]["error"])[:800])
            continue
        o = o[1]
        nl += o.get("layouts", 0)
        ck.refused += o.get("refused", [])
        for l in o.get("limits", [])[:3]:
            ck.error(f"engine limit (the real code raised only under the uninterpreted-step stubs, natively it runs): {l[:300]}")
        for r in o["results"]:
            ck.add(r)
            if r["status"] == "refuted":
                rp = {"reproduced": False}
                if (r.get("model") or {}).get("scenario") and n_native < 3:
                    n_native += 1
                    rp = e4.native_replay(r["model"]["scenario"], checkpoint_lengths=r["model"].get("checkpoint_lengths"))
                ck.violation(r["name"], {"solver": r["backend"], "solver_output": r["detail"], "kind": "c06", "replay_module": "jxverif.props.C06", "replay": rp, "model": r.get("model", {})},
                             reproduced=rp.get("reproduced", False))
        ck.extra.setdefault("code_reached", {}).update({k: v for k, v in o.get("reached", {}).items() if k.startswith("jaxley")})
    for can, oc in zip(CANARIES, outs[len(chunks):]):
        ref = oc[0] == "ok" and any(r["status"] != "proved" for r in oc[1]["results"])
        ck.canary(f"{can[0]}: {can[2][:50]!r} -> {can[3][:50]!r}", ref, oc)
    for f in ("jaxley.integrate.integrate", "jaxley.integrate.add_stimuli", "jaxley.integrate.add_clamps", "jaxley.utils.jax_utils.nested_checkpoint_scan",
              "jaxley.utils.jax_utils._inner_nested_scan", "jaxley.modules.base.Module.step", "jaxley.modules.base.Module.to_jax"):
        ck.add_function(f, "body discharged" if not ck.violations else "body NOT discharged")
    ck.extra["configurations"] = {"scenarios": n, "checkpoint_layouts_run": nl, "rule": "all layouts of depth 1-3 with steps <= product <= max(steps+2,6) (quick) / max(steps+4,12) (thorough)"}
    ck.trusted = ["jax.jit / jax.vmap of a pure traceable function equal the eager sequential call (JAX)", "lax.scan = sequential loop, jax.checkpoint = identity on values",
                  "Module.step etc. uninterpreted in the time-axis part"]
    ck.assumptions += ["'to round-off': the recording TERMS are identical, so results are bit-identical whenever XLA evaluates the same traced program identically"]
    return ck.finish()


def replay(p):
    m = p.get("model") or {}
    if not m.get("scenario"):
        return {"reproduced": False, "reason": "no scenario recorded"}
    return e4.native_replay(m["scenario"], checkpoint_lengths=m.get("checkpoint_lengths"))
