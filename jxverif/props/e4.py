"""Scenarios for the uninterpreted-step engine (C06, C07, C08 time axis).

A scenario is a sequence of real API calls (record / stimulate / clamp / data_stimulate / data_clamp on simple views of a
small real cell) plus integrate arguments.  The SPECIFICATION of what should come out is computed from the call list
itself (which compartment, which waveform, which order), never from the tables the code builds.
"""
from __future__ import annotations

import copy
import itertools
import math
import traceback

import numpy as np

from .. import ufterm as U
from ..ufterm import T

NCOMP = [2, 1, 2]           # compartments per branch of the template cell; global index = offset[b] + c
OFFS = [0, 2, 3]
_TEMPLATE = {}


def template():
    if "cell" not in _TEMPLATE:
        import jax
        jax.config.update("jax_enable_x64", True)
        import jaxley as jx
        from jaxley.channels import HH
        comp = jx.Compartment()
        cell = jx.Cell([jx.Branch(comp, ncomp=n) for n in NCOMP], parents=[-1, 0, 0])
        cell.insert(HH())
        _TEMPLATE["cell"] = cell
    return copy.deepcopy(_TEMPLATE["cell"])


def gidx(b, c):
    return OFFS[b] + c


class _NoCrossCheck(Exception):
    pass


class Scenario:
    """recs: [(b, c, state)]; stims: [(kind 'static'|'data', [(b,c)...] targets, name)]; clamps: [(kind, state, (b,c), name)]"""

    def __init__(self, recs, stims=(), clamps=(), T_len=3, t_max=None, dt=0.025, solver="bwd_euler", vs="jaxley.thomas", offset=0):
        self.recs, self.stims, self.clamps = list(recs), list(stims), list(clamps)
        self.T_len, self.t_max, self.dt, self.solver, self.vs, self.offset = T_len, t_max, dt, solver, vs, offset
        # specification side: which (target compartment, waveform row) each call denotes
        self.expected_ext = {}
        for kind, targets, name in self.stims:
            for row, (b, c) in enumerate(targets):
                self.expected_ext.setdefault("i", []).append((gidx(b, c), name, row))
        for kind, state, (b, c), name in self.clamps:
            self.expected_ext.setdefault(state, []).append((gidx(b, c), name, 0))

    def label(self):
        return (f"recs={self.recs};stims={[(k, t, n) for k, t, n in self.stims]};clamps={self.clamps};T={self.T_len};t_max={self.t_max};dt={self.dt}"
                f";{self.solver};{self.vs}")

    # ---- apply the real API
    def build(self):
        import jax.numpy as rjnp
        cell = template()
        sy = U.Symbolizer()
        data_stimuli, data_clamps = None, None
        for (b, c, state) in self.recs:
            cell.branch(b).comp(c).record(state, verbose=False)
        for kind, targets, name in self.stims:
            for (b, c) in targets:
                pass
            # one call per stimulus on a single compartment or on a list of compartments of one branch
            wave = sy.waveform(name, len(targets), self.T_len, self.offset)
            view = _view(cell, targets)
            if kind == "static":
                view.stimulate(rjnp.asarray(wave), verbose=False)
            else:
                data_stimuli = view.data_stimulate(rjnp.asarray(wave), data_stimuli)
        for kind, state, (b, c), name in self.clamps:
            wave = sy.waveform(name, 1, self.T_len, self.offset)
            view = cell.branch(b).comp(c)
            if kind == "static":
                view.clamp(state, rjnp.asarray(wave[0]), verbose=False)
            else:
                data_clamps = view.data_clamp(state, rjnp.asarray(wave[0]), data_clamps)
        self.sy = sy
        if data_stimuli is not None:
            data_stimuli = (data_stimuli[0], sy.sym(data_stimuli[1]), data_stimuli[2])
        if data_clamps is not None:
            data_clamps = (data_clamps[0], sy.sym(data_clamps[1]), data_clamps[2])
        return cell, data_stimuli, data_clamps

    # ---- specification
    def nsteps(self):
        if self.t_max is not None:
            return int(self.t_max // self.dt + 1)
        return self.T_len

    def expected_recs(self):
        seen, out = set(), []
        for (b, c, state) in self.recs:
            key = (gidx(b, c), state)
            if key not in seen:
                seen.add(key)
                out.append(key)
        return out

    def ext_at(self, k):
        """inputs acting during step k+1 = sample k of every stimulus/clamp (absolute sample index offset+k)"""
        out = []
        for key in sorted(self.expected_ext):
            pairs = []
            for (tgt, name, row) in self.expected_ext[key]:
                if k < self.T_len:
                    val = T("x", name, row, k + self.offset)
                elif key == "i":
                    val = 0.0
                else:
                    val = "CLAMP-SHORTER-THAN-RUN"
                pairs.append((tgt, val))
            out.append((key, tuple(sorted(pairs, key=lambda p: (p[0], repr(p[1]))))))
        return tuple(out)


def _view(cell, targets):
    bs = sorted(set(b for b, c in targets))
    if len(targets) == 1:
        b, c = targets[0]
        return cell.branch(b).comp(c)
    if len(bs) == 1:
        return cell.branch(bs[0]).comp([c for b, c in targets])
    # compartments of several branches, in the GIVEN order (select keeps the order it is given: row r of the waveform belongs to
    # the r-th listed compartment)
    return cell.select(nodes=[gidx(b, c) for b, c in targets])


def run_integrate(sc: Scenario, fns=None, checkpoint_lengths=None, return_states=False, all_states=None, **kw):
    """-> dict(recs (TArr) | exception, state term, frame facts)"""
    fns = fns or U.real_functions()
    cell, ds, dc = sc.build()
    m = U.E4Module(cell, sc.sy)
    U.SCAN_CALLS.clear()
    out = {"module": m}
    try:
        r = fns["integrate"](m, delta_t=sc.dt, t_max=sc.t_max, solver=sc.solver, voltage_solver=sc.vs, data_stimuli=ds, data_clamps=dc,
                             checkpoint_lengths=checkpoint_lengths, return_states=return_states, all_states=all_states, **kw)
        if return_states:
            out["recs"], out["state"] = r
        else:
            out["recs"] = r
    except Exception as e:
        out["exception"] = f"{type(e).__name__}: {str(e)[:150]}"
        out["trace"] = traceback.format_exc(limit=6)
        # Does the REAL code raise as well (natively, with numbers)?  If not, the exception is a limit of the
        # uninterpreted-step engine (code touched the opaque state in a way the stubs do not support): exit 3, no verdict.
        try:
            import jaxley as jx
            cell2, ds2, dc2 = sc.build()
            nat_all = None
            if all_states is not None:
                raise _NoCrossCheck()
            jx.integrate(cell2, delta_t=sc.dt, t_max=sc.t_max, solver=sc.solver, voltage_solver=sc.vs, data_stimuli=_numeric(ds2), data_clamps=_numeric(dc2),
                         checkpoint_lengths=checkpoint_lengths, return_states=return_states, **kw)
            out["engine_limit"] = True
        except _NoCrossCheck:
            out["engine_limit"] = True
        except Exception as e2:
            # the real code raises natively as well - but that confirms what the stub run saw only if it is raised by the code
            # under the engine; an exception from the native step (e.g. forward Euler refused on a branched cell, which the
            # stubbed step never executes) leaves the stub-run exception an artefact of the engine
            # ... decided by WHERE the native exception comes from: raised inside jaxley/modules/ (the code the stubs replace) it
            # says nothing about integrate / jax_utils; raised in the code under the engine it confirms that the real code raises
            import traceback as _tb
            frames = _tb.extract_tb(e2.__traceback__)
            in_stubbed_scope = any("/jaxley/modules/" in fr.filename for fr in frames)
            out["engine_limit"] = bool(in_stubbed_scope)
            out["native_exception"] = f"{type(e2).__name__}: {str(e2)[:150]}" + (" [raised inside jaxley/modules: outside the engine's scope]" if in_stubbed_scope else "")
    out["writes"] = list(m._writes)
    out["calls"] = list(m._calls)
    out["frame_ok"] = m.frame_ok()
    out["scan_calls"] = list(U.SCAN_CALLS)
    return out


def _numeric(d):
    """data_stimuli/data_clamps tuples with the tag floats restored (for the native cross-check)"""
    if d is None:
        return None
    import jax.numpy as rjnp
    a = np.asarray(d[1], dtype=object)
    inv = {}
    return (d[0], rjnp.asarray(np.vectorize(lambda t: float(hash(t) % 1000) if isinstance(t, T) else float(t))(a).astype(float)), d[2])


def S0_term(sc):
    P = T("P", (), sc.vs)
    return T("S0", (), P, sc.dt), P


def spec_for(sc: Scenario, S_init=None):
    S0, P = S0_term(sc)
    states = U.spec_states(S_init if S_init is not None else S0, sc.nsteps(), sc.ext_at, sc.dt, P, sc.solver, sc.vs)
    return states


def recs_match(recs, sc, states):
    """-> (ok, detail)"""
    exp = sc.expected_recs()
    n = sc.nsteps()
    a = np.asarray(recs, dtype=object)
    if a.shape != (len(exp), n + 1):
        return False, f"shape {a.shape} != {(len(exp), n + 1)}"
    for r, (idx, state) in enumerate(exp):
        for k in range(n + 1):
            want = T("get", states[k], state, idx)
            if not (a[r][k] == want):
                return False, f"row {r} col {k}: got {a[r][k]!r:.300} want {want!r:.300}"
    return True, ""


def factorizations(n, maxprod, depth=3):
    """all tuples of lengths (depth 1..3, entries >= 1) with n <= product <= maxprod"""
    out = []
    for d in range(1, depth + 1):
        for tup in itertools.product(range(1, maxprod + 1), repeat=d):
            p = math.prod(tup)
            if n <= p <= maxprod and (d == 1 or all(x > 1 for x in tup) or p == n):
                out.append(list(tup))
    return out


def fine_dt_scenarios():
    """time steps that are not multiples of 1e-4 ms (a refinement ladder dt0 / 2^k leaves the 4-decimal grid at once): integrate
    must advance every step with exactly the caller's delta_t and return t_max // dt + 1 columns (seeded change C15_f rounds dt)"""
    st = [("static", [(0, 0)], "a")]
    R1 = [(1, 0, "v"), (0, 1, "HH_m"), (0, 0, "v")]
    return [Scenario(R1, st, [], T_len=6, t_max=0.025, dt=0.00625), Scenario(R1, st, [], T_len=3, t_max=0.0125, dt=0.003125),
            Scenario(R1, [], [], T_len=0, t_max=0.01, dt=0.00390625)]


def scenarios(tier):
    R1 = [(1, 0, "v"), (0, 1, "HH_m"), (0, 0, "v")]
    # a record call repeated AFTER other recordings were added in between (and once immediately): one row per distinct request, in
    # first-request order (seeded change C08_e keeps the last occurrence instead, which shifts every row in between)
    R2 = [(2, 1, "v"), (0, 0, "HH_h"), (2, 1, "v"), (2, 1, "v"), (2, 0, "v"), (0, 0, "HH_h")]
    S = []
    stim_sets = [
        [],
        [("static", [(0, 0)], "a")],
        [("static", [(2, 0), (2, 1)], "a"), ("static", [(0, 1)], "b")],
        [("data", [(1, 0)], "a")],
        [("static", [(2, 1)], "a"), ("data", [(0, 0)], "b")],                       # static + data on different compartments
        [("static", [(0, 1)], "a"), ("static", [(0, 1)], "b")],                     # two stimuli on one compartment
        [("data", [(2, 0)], "a"), ("data", [(0, 0), (0, 1)], "b")],
        [("static", [(2, 1), (0, 1), (1, 0)], "a")],                                # a select() view in non-ascending order, one row per compartment
        [("data", [(2, 0), (0, 0)], "a"), ("static", [(1, 0), (0, 1)], "b")],
    ]
    clamp_sets = [
        [],
        [("static", "v", (1, 0), "c")],
        [("data", "v", (2, 0), "c")],
        [("static", "HH_m", (0, 0), "c"), ("data", "v", (0, 1), "d")],
        [("static", "v", (0, 0), "c"), ("data", "v", (2, 1), "d")],
    ]
    for recs in (R1, R2):
        for st in stim_sets:
            for cl in clamp_sets:
                if not st and not cl:
                    S.append(Scenario(recs, st, cl, T_len=0, t_max=0.075))
                    continue
                for T_len in ((3,) if tier == "quick" else (1, 2, 4)):
                    S.append(Scenario(recs, st, cl, T_len=T_len))
    # t_max padding / truncation (stimuli only; clamps must be long enough)
    for st in stim_sets[1:]:
        for t_max in (0.05, 0.075, 0.1, 0.15):
            S.append(Scenario(R1, st, [], T_len=4, t_max=t_max))
        S.append(Scenario(R1, st, [], T_len=4, t_max=0.3, dt=0.1))
    S += fine_dt_scenarios()
    for cl in clamp_sets[1:]:
        S.append(Scenario(R1, [], cl, T_len=4, t_max=0.05))          # truncation of clamps
        S.append(Scenario(R1, [], cl, T_len=2, t_max=0.1))           # clamp shorter than the run: must refuse
    for solver, vs in (("crank_nicolson", "jax.sparse"), ("fwd_euler", "jaxley.stone")):
        S.append(Scenario(R1, stim_sets[2], clamp_sets[1], T_len=3, solver=solver, vs=vs))
    return S


def scenario_dict(sc):
    return dict(recs=[list(r) for r in sc.recs], stims=[[k, [list(t) for t in ts], n] for k, ts, n in sc.stims], clamps=[[k, st, list(bc), n] for k, st, bc, n in sc.clamps],
                T_len=sc.T_len, t_max=sc.t_max, dt=sc.dt, solver=sc.solver, vs=sc.vs, offset=sc.offset)


def native_replay(scd, checkpoint_lengths=None):
    """E3 for the time-axis obligations: the scenario IS the failing input.  It is built natively (the unique waveform tags
    scaled to small distinct numbers), the real jx.integrate runs, and its output is compared with an oracle that is computed
    from the scenario's CALL LIST: the model is stepped by hand with the step function of build_init_and_step_fn, the inputs of
    step k are sample k of the waveforms on the compartments the calls named, and row r is the r-th distinct record request."""
    try:
        import jax
        jax.config.update("jax_enable_x64", True)
        import jax.numpy as rjnp
        import jaxley as jx
        from jaxley.integrate import build_init_and_step_fn
        sc = Scenario([tuple(r) for r in scd["recs"]], [(k, [tuple(t) for t in ts], n) for k, ts, n in scd["stims"]],
                      [(k, st, tuple(bc), n) for k, st, bc, n in scd["clamps"]], T_len=scd["T_len"], t_max=scd["t_max"], dt=scd["dt"], solver=scd["solver"], vs=scd["vs"], offset=scd.get("offset", 0))
        f = lambda a: (np.asarray(a, dtype=float) - 1000.0) * 0.02          # tag -> small distinct number
        cell, ds, dc = sc.build()
        tag_of = {repr(t): tag for tag, t in sc.sy.names.items()}
        cell.externals = {k: rjnp.asarray(f(v)) for k, v in cell.externals.items()}
        num = lambda d: None if d is None else (d[0], rjnp.asarray(f(np.vectorize(lambda t: float(tag_of[repr(t)]) if isinstance(t, T) else float(t))(np.asarray(d[1], dtype=object)).astype(float))), d[2])
        got = np.asarray(jx.integrate(cell, delta_t=sc.dt, t_max=sc.t_max, solver=sc.solver, voltage_solver=sc.vs, data_stimuli=num(ds), data_clamps=num(dc), checkpoint_lengths=checkpoint_lengths))
        # oracle
        cell2, _, _ = sc.build()
        init_fn, step_fn = build_init_and_step_fn(cell2, voltage_solver=sc.vs, solver=sc.solver)
        cell2.to_jax()
        states, params = init_fn([], None, None, sc.dt)
        exp = sc.expected_recs()
        n = sc.nsteps()
        cols = [[float(states[st][ix]) for ix, st in exp]]
        for k in range(n):
            ext, inds = {}, {}
            for key, entries in sc.expected_ext.items():
                vals = []
                for (gi, name, row) in entries:
                    tag = tag_of.get(repr(T("x", name, row, k + sc.offset)))
                    vals.append(float(f(tag)) if tag is not None and k < sc.T_len else 0.0)
                ext[key], inds[key] = rjnp.asarray(vals), rjnp.asarray([gi for gi, _, _ in entries])
            states = step_fn(states, params, ext, inds, sc.dt)
            cols.append([float(states[st][ix]) for ix, st in exp])
        want = np.asarray(cols).T
        if got.shape != want.shape:
            return {"reproduced": True, "scenario": scd, "integrate_shape": list(got.shape), "oracle_shape": list(want.shape)}
        d = np.abs(got - want)
        bad = np.argwhere(~(d <= 1e-9 * np.maximum(1.0, np.abs(want))))
        return {"reproduced": bool(len(bad)), "scenario": scd, "first_mismatch_row_col": bad[0].tolist() if len(bad) else None,
                "integrate_value": float(got[tuple(bad[0])]) if len(bad) else None, "oracle_value": float(want[tuple(bad[0])]) if len(bad) else None}
    except Exception as e:
        return {"reproduced": False, "reason": f"{type(e).__name__}: {str(e)[:200]}"}
