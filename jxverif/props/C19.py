"""C19 - any editing history leaves a consistent module that simulates its tables.

Contract view of a history property: a representation invariant wf(module) with `requires wf(old)` / `ensures wf(new)` on every
public editing operation, plus "deletions undo insertions" as postconditions relating to the pre-state.
Tier B (bounded evaluation, level `exploration`): all histories to depth 2 and a stride of depth 3 (quick) / all of depth 3
(thorough) over an alphabet of view x operation letters on one irregular cell and one two-cell network; operations that the
code refuses (raises) end a history and are recorded, not counted.
Tier P per reached state (sampled): the real to_jax -> get_all_parameters -> get_all_states -> step chain on symbolic tables
hands the voltage solver exactly the membrane terms of the model that the tables display (reference rebuilt from .nodes /
.edges / .externals with the mechanism kernels applied row by row), and every mechanism state is updated from its own row.
"""
from __future__ import annotations

import copy
import itertools
import pickle
import traceback

import numpy as np
import pandas as pd
import z3

from ..core import Check, run_units
from .C08 import _res

PID = "C19"
_TPL = {}


def template(kind):
    if kind not in _TPL:
        import jax
        jax.config.update("jax_enable_x64", True)
        import jaxley as jx
        from jaxley.connect import connect
        from jaxley.synapses import IonotropicSynapse, TestSynapse
        comp = jx.Compartment()
        cell = jx.Cell([jx.Branch(comp, ncomp=n) for n in (2, 1, 3)], parents=[-1, 0, 0])
        if kind == "cell":
            _TPL[kind] = cell
        else:
            c2 = jx.Cell([jx.Branch(comp, ncomp=n) for n in (1, 2)], parents=[-1, 0])
            net = jx.Network([cell, c2])
            connect(net.cell(0).branch(0).comp(0), net.cell(1).branch(1).comp(1), IonotropicSynapse())
            connect(net.cell(1).branch(0).comp(0), net.cell(0).branch(2).comp(2), TestSynapse())
            _TPL[kind] = net
    return copy.deepcopy(_TPL[kind])


def alphabet(kind):
    import jax.numpy as jnp
    import jaxley.channels as CH
    from jaxley.connect import connect
    from jaxley.synapses import IonotropicSynapse
    cellv = (lambda m: m) if kind == "cell" else (lambda m: m.cell(0))
    A = [
        ("insert(HH)@branch(0)", lambda m: cellv(m).branch(0).insert(CH.HH())),
        ("insert(Na)@all", lambda m: m.insert(CH.Na())),
        ("insert(K)@branch(2).comp(1)", lambda m: cellv(m).branch(2).comp(1).insert(CH.K())),
        ("insert(K)@branch(0)", lambda m: cellv(m).branch(0).insert(CH.K())),
        ("insert(Km)@branch(1)", lambda m: cellv(m).branch(1).insert(CH.Km())),
        ("insert(CaT)@branch(2)", lambda m: cellv(m).branch(2).insert(CH.CaT())),
        ("insert(CaL)@branch(2).comp(0)", lambda m: cellv(m).branch(2).comp(0).insert(CH.CaL())),
        ("delete_channel(HH)@all", lambda m: m.delete_channel(CH.HH())),
        ("delete_channel(Na)@branch(0)", lambda m: cellv(m).branch(0).delete_channel(CH.Na())),
        ("delete_channel(Na)@all", lambda m: m.delete_channel(CH.Na())),
        ("delete_channel(K)@all", lambda m: m.delete_channel(CH.K())),
        ("delete_channel(K)@branch(0)", lambda m: cellv(m).branch(0).delete_channel(CH.K())),
        ("delete_channel(CaL)@branch(2).comp(0)", lambda m: cellv(m).branch(2).comp(0).delete_channel(CH.CaL())),
        ("delete_channel(CaT)@all", lambda m: m.delete_channel(CH.CaT())),
        ("set(radius)@branch(1)", lambda m: cellv(m).branch(1).set("radius", 2.5)),
        ("set(vt)@all", lambda m: m.set("vt", -55.0)),
        ("add_to_group(g)@branch(2)", lambda m: cellv(m).branch(2).add_to_group("g")),
        ("record(v)@branch(0).comp(1)", lambda m: cellv(m).branch(0).comp(1).record("v", verbose=False)),
        ("record(v)@all", lambda m: m.record("v", verbose=False)),
        ("delete_recordings", lambda m: m.delete_recordings()),
        ("record(v)@branch(2)", lambda m: cellv(m).branch(2).record("v", verbose=False)),
        ("delete_recordings@branch(2)", lambda m: cellv(m).branch(2).delete_recordings()),
        ("stimulate@branch(2).comp(0)", lambda m: cellv(m).branch(2).comp(0).stimulate(jnp.ones(3) * 0.1, verbose=False)),
        ("stimulate@branch(0)", lambda m: cellv(m).branch(0).stimulate(jnp.ones(3) * 0.2, verbose=False)),
        ("stimulate@branch(1)", lambda m: cellv(m).branch(1).stimulate(jnp.ones(3) * 0.3, verbose=False)),
        ("clamp(v)@branch(1)", lambda m: cellv(m).branch(1).clamp("v", jnp.ones(3) * -60.0, verbose=False)),
        ("delete_stimuli@branch(0)", lambda m: cellv(m).branch(0).delete_stimuli()),
        ("delete_stimuli", lambda m: m.delete_stimuli()),
        ("delete_clamps", lambda m: m.delete_clamps()),
        ("make_trainable(radius)@branch('all')", lambda m: cellv(m).branch("all").make_trainable("radius", verbose=False)),
        ("make_trainable(length)@branch(0)", lambda m: cellv(m).branch(0).make_trainable("length", verbose=False)),
        ("delete_trainables", lambda m: m.delete_trainables()),
        ("init_states", lambda m: m.init_states()),
    ]
    if kind == "cell":
        A.append(("set_ncomp(3)@branch(1)", lambda m: m.branch(1).set_ncomp(3)))
        A.append(("set_ncomp(1)@branch(2)", lambda m: m.branch(2).set_ncomp(1)))
    else:
        A.append(("connect(c0b1c0->c1b0c0,Iono)", lambda m: connect(m.cell(0).branch(1).comp(0), m.cell(1).branch(0).comp(0), IonotropicSynapse())))
        A.append(("set(gS)@IonotropicSynapse", lambda m: m.IonotropicSynapse.set("IonotropicSynapse_gS", 5e-4)))
        A.append(("set(gS)@net", lambda m: m.set("IonotropicSynapse_gS", 4e-4)))       # a view that spans synapses of another type (seeded change C19_e)
        A.append(("set(gC)@cell([0,1])", lambda m: m.cell([0, 1]).set("TestSynapse_gC", 2e-4)))
        A.append(("clamp(Iono_s)@IonotropicSynapse.edge(0)", lambda m: m.IonotropicSynapse.edge(0).clamp("IonotropicSynapse_s", jnp.ones(3) * 0.4, verbose=False)))
        A.append(("record(Iono_s)@IonotropicSynapse", lambda m: m.IonotropicSynapse.record("IonotropicSynapse_s", verbose=False)))
    return A


# ---- the representation invariant ----------------------------------------------------------------------------------------
def wf(m):
    """-> list of violated clauses (empty = well-formed)"""
    bad = []
    nodes, edges = m.nodes, m.edges
    N = len(nodes)
    if list(nodes.index) != list(range(N)) or list(nodes["global_comp_index"]) != list(range(N)):
        bad.append("indices: .nodes index / global_comp_index are not 0..N-1")
    if N != int(np.sum(m.ncomp_per_branch)) or N != int(m.cumsum_ncomp[-1]):
        bad.append("indices: ncomp_per_branch / cumsum_ncomp disagree with the number of rows")
    gb = nodes["global_branch_index"].to_numpy()
    if list(gb) != list(np.repeat(np.arange(len(m.ncomp_per_branch)), np.asarray(m.ncomp_per_branch))):
        bad.append("indices: global_branch_index is not the run-length expansion of ncomp_per_branch")
    chans = {c._name: c for c in m.channels}
    for name, c in chans.items():
        if name not in nodes.columns:
            bad.append(f"channel {name}: flag column missing")
            continue
        if nodes[name].isna().any():
            bad.append(f"channel {name}: flag column has NaN")
        for key in list(c.channel_params) + list(c.channel_states):
            if key not in nodes.columns:
                bad.append(f"channel {name}: column {key} missing although the channel is inserted")
    # every channel column is non-NaN exactly on the rows where a channel owning that column is present
    owners = {}
    for name, c in chans.items():
        for key in list(c.channel_params) + list(c.channel_states):
            owners.setdefault(key, []).append(name)
    for key, own in owners.items():
        if key not in nodes.columns or any(o not in nodes.columns for o in own):
            continue
        need = np.zeros(N, dtype=bool)
        for o in own:
            need |= nodes[o].astype(bool).to_numpy()
        have = ~nodes[key].isna().to_numpy()
        if (need & ~have).any():
            bad.append(f"column {key}: NaN on rows {np.where(need & ~have)[0].tolist()} where {own} is present")
        if (have & ~need).any():
            bad.append(f"column {key}: value on rows {np.where(have & ~need)[0].tolist()} where none of {own} is present")
    want_currents = sorted({c.current_name for c in m.channels})
    if sorted(set(m.membrane_current_names)) != want_currents or len(set(m.membrane_current_names)) != len(m.membrane_current_names):
        bad.append(f"membrane_current_names {m.membrane_current_names} != currents of the inserted channels {want_currents}")
    # recordings
    if len(m.recordings):
        comp_states, edge_states = m._get_state_names()
        for _, r in m.recordings.iterrows():
            if r["state"] in comp_states:
                if not (0 <= int(r["rec_index"]) < N):
                    bad.append(f"recording of {r['state']} refers to row {r['rec_index']} which does not exist")
                elif r["state"] != "v" and not r["state"].startswith("i_") and pd.isna(nodes.loc[int(r["rec_index"]), r["state"]]):
                    bad.append(f"recording of {r['state']} at row {r['rec_index']} where that state does not exist")
            elif r["state"] in edge_states:
                if not (0 <= int(r["rec_index"]) < len(edges)):
                    bad.append(f"recording of {r['state']} refers to edge {r['rec_index']} which does not exist")
            else:
                bad.append(f"recording of unknown state {r['state']}")
    # externals
    if sorted(m.externals) != sorted(m.external_inds):
        bad.append("externals / external_inds have different keys")
    for k in m.externals:
        if k in m.external_inds:
            inds = np.asarray(m.external_inds[k])
            if np.asarray(m.externals[k]).ndim != 2 or np.asarray(m.externals[k]).shape[0] != len(inds):
                bad.append(f"externals[{k}] has {np.asarray(m.externals[k]).shape} for {len(inds)} indices")
            lim = len(edges) if (len(edges) and k in edges.columns and k not in nodes.columns) else N
            if len(inds) and (inds.min() < 0 or inds.max() >= lim):
                bad.append(f"external_inds[{k}] refers to rows that do not exist")
    for g, inds in m.groups.items():
        inds = np.asarray(inds)
        if len(inds) and (inds.min() < 0 or inds.max() >= N):
            bad.append(f"group {g} refers to rows that do not exist")
    if len(m.trainable_params) != len(m.indices_set_by_trainables):
        bad.append("trainable_params / indices_set_by_trainables differ in length")
    for p, inds in zip(m.trainable_params, m.indices_set_by_trainables):
        key = list(p)[0]
        inds = np.asarray(inds)
        lim = len(edges) if key in edges.columns and key not in nodes.columns else N
        if inds.size and (inds.min() < 0 or inds.max() >= lim):
            bad.append(f"trainable {key} refers to rows {inds.tolist()} outside 0..{lim - 1}")
        if len(np.asarray(list(p.values())[0])) != inds.shape[0]:
            bad.append(f"trainable {key}: {len(np.asarray(list(p.values())[0]))} values for {inds.shape[0]} index rows")
    if len(edges):
        if list(edges.index) != list(range(len(edges))) or list(edges["global_edge_index"]) != list(range(len(edges))):
            bad.append("edges: index not contiguous")
        for col in ("pre_global_comp_index", "post_global_comp_index"):
            if (edges[col] < 0).any() or (edges[col] >= N).any():
                bad.append(f"edges: {col} refers to a compartment that does not exist")
        for i, syn in enumerate(m.synapses):
            rows = edges["type_ind"] == i
            if list(edges.loc[rows, "type"].unique()) not in ([syn._name], []):
                bad.append(f"edges: type_ind {i} is not synapse {syn._name}")
            for key in list(syn.synapse_params) + list(syn.synapse_states):
                if key not in edges.columns or edges.loc[rows, key].isna().any():
                    bad.append(f"edges: {key} missing for a {syn._name} synapse")
                elif key in edges.columns:
                    # ... and present ONLY there: a synapse of another type that does not use the key must not carry a value
                    users = np.zeros(len(edges), dtype=bool)
                    for j, other in enumerate(m.synapses):
                        if key in other.synapse_params or key in other.synapse_states:
                            users |= (edges["type_ind"] == j).to_numpy()
                    stray = edges.index[(~users) & edges[key].notna().to_numpy()]
                    if len(stray):
                        bad.append(f"edges: {key} has a value in rows {list(map(int, stray))[:4]} whose synapse type does not have that parameter/state")
    try:
        pickle.dumps(m)
    except Exception as e:
        bad.append(f"module is not picklable: {type(e).__name__}")
    return bad


def snapshot(m):
    return dict(nodes=m.nodes.copy(), edges=m.edges.copy(), recordings=m.recordings.copy(), externals={k: np.asarray(v).copy() for k, v in m.externals.items()},
                external_inds={k: np.asarray(v).copy() for k, v in m.external_inds.items()}, channels=[c._name for c in m.channels], currents=list(m.membrane_current_names),
                trainables=len(m.trainable_params), groups={k: np.asarray(v).copy() for k, v in m.groups.items()})


def same_tables(a, b):
    def df_eq(x, y):
        if sorted(x.columns) != sorted(y.columns) or len(x) != len(y):
            return False
        for c in x.columns:
            u, v = x[c].to_numpy(), y[c].to_numpy()
            try:
                if not np.allclose(u.astype(float), v.astype(float), equal_nan=True):
                    return False
            except (TypeError, ValueError):
                if list(u) != list(v):
                    return False
        return True
    return df_eq(a["nodes"], b["nodes"]) and df_eq(a["edges"], b["edges"]) and sorted(a["channels"]) == sorted(b["channels"]) and sorted(a["currents"]) == sorted(b["currents"])


UNDO = {  # operation -> the deletion that must restore the tables (when the operation added something new)
    "insert(HH)@branch(0)": "delete_channel(HH)@all", "insert(Na)@all": "delete_channel(Na)@all", "insert(CaT)@branch(2)": "delete_channel(CaT)@all",
    "insert(K)@branch(2).comp(1)": "delete_channel(K)@all",
}


def history_worker(arg):
    kind, tier, chunk, nchunks, canary = arg
    from . import common
    template(kind)
    undo = common.apply_canary(*canary) if canary else None
    try:
        return _history(kind, tier, chunk, nchunks, canary is not None)
    finally:
        if undo:
            undo()


def _history(kind, tier, chunk, nchunks, is_canary):
    out = {"results": [], "error": "", "evals": 0, "cases": 0, "refused": 0, "witness": {}, "states": []}
    try:
        A = alphabet(kind)
        names = [a[0] for a in A]
        fn = dict(A)
        H = [(a,) for a in names] + list(itertools.product(names, repeat=2))
        h3 = list(itertools.product(names, repeat=3))
        H += h3 if tier != "quick" else h3[:: (37 if not is_canary else 211)]
        H += [("stimulate@branch(2).comp(0)", "stimulate@branch(0)", "delete_stimuli@branch(0)"), ("stimulate@branch(0)", "stimulate@branch(2).comp(0)", "delete_stimuli@branch(0)"),
              ("clamp(v)@branch(1)", "stimulate@branch(0)", "delete_clamps"),
              # channels that share a parameter column / current name, placed on disjoint views, one of them deleted through its view
              ("insert(K)@branch(0)", "insert(Km)@branch(1)", "delete_channel(K)@branch(0)"), ("insert(Km)@branch(1)", "insert(K)@branch(0)", "delete_channel(K)@branch(0)"),
              ("insert(CaT)@branch(2)", "insert(CaL)@branch(2).comp(0)", "delete_channel(CaL)@branch(2).comp(0)"), ("insert(K)@branch(2).comp(1)", "insert(Na)@all", "delete_channel(Na)@branch(0)"),
              ("insert(K)@branch(0)", "insert(Na)@all", "delete_channel(K)@branch(0)", "delete_channel(Na)@all"),
              ("stimulate@branch(2).comp(0)", "stimulate@branch(1)", "stimulate@branch(0)", "delete_stimuli@branch(0)"),
              ("insert(Na)@all", "set(vt)@all", "insert(K)@branch(2).comp(1)"),          # known finding F25 (insertion overwrites a set() shared parameter)
              ("record(v)@branch(0).comp(1)", "record(v)@branch(2)", "record(v)@branch(0).comp(1)", "delete_recordings@branch(2)"),
              ("record(v)@branch(2)", "record(v)@branch(0).comp(1)", "delete_recordings@branch(2)", "record(v)@all"),
              ("record(v)@all", "record(v)@branch(0).comp(1)", "delete_recordings@branch(2)"),
              ("add_to_group(g)@branch(2)", "set_ncomp(3)@branch(1)") if kind == "cell" else ("add_to_group(g)@branch(2)",),
              ("add_to_group(g)@branch(2)", "set_ncomp(1)@branch(2)", "set_ncomp(3)@branch(1)") if kind == "cell" else ("add_to_group(g)@branch(2)",),
              ("stimulate@branch(1)", "stimulate@branch(0)", "stimulate@branch(2).comp(0)", "delete_stimuli@branch(0)", "record(v)@all")]
        H = H[chunk::nchunks]
        bad_wf, bad_wf_f10, bad_undo, bad_undo_f10, bad_undo_f25 = [], [], [], [], []
        seen_states = set()
        for h in H:
            m = template(kind)
            ok = True
            trail = []
            gmodel = {}
            for op in h:
                pre = snapshot(m) if op in UNDO else None
                pairs0 = _ext_pairs(m) if op.startswith("delete_stimuli") or op.startswith("delete_clamps") else None
                recs0 = sorted((int(r["rec_index"]), str(r["state"])) for _, r in m.recordings.iterrows()) if op == "delete_recordings@branch(2)" else None
                rows_b2 = set(int(i) for i in m.nodes.index[(m.nodes["global_branch_index"] == 2)]) if recs0 is not None else None
                try:
                    fn[op](m)
                except Exception as e:
                    out["refused"] += 1
                    ok = False
                    break
                trail.append(op)
                w = wf(m)
                # named groups keep their BRANCH membership through every later operation (set_ncomp re-indexes the rows)
                if op.startswith("add_to_group("):
                    gname = op.split("(")[1].split(")")[0]
                    gmodel[gname] = gmodel.get(gname, set()) | {int(op.split("@branch(")[1].split(")")[0])}      # the view is one whole branch of cell 0
                if not w:
                    for gname, want_b in gmodel.items():
                        rows_g = np.asarray(m.groups.get(gname, []))
                        got_b = {int(b) for b in m.nodes.loc[rows_g, "global_branch_index"]} if len(rows_g) else set()
                        full = all(set(int(i) for i in m.nodes.index[m.nodes["global_branch_index"] == b]) <= set(int(i) for i in rows_g) for b in want_b)
                        if got_b != want_b or not full:
                            w = [f"group {gname} covers branches {sorted(got_b)} (rows {rows_g.tolist()}), it was made of the whole branches {sorted(want_b)}"]
                if pairs0 is not None and not w:
                    # deleting inputs through a view removes exactly the inputs on the view's rows; every other (row, waveform) pair survives
                    if op == "delete_stimuli":
                        want = {p for p in pairs0 if p[0] != "i"}
                    elif op == "delete_stimuli@branch(0)":
                        want = {p for p in pairs0 if not (p[0] == "i" and p[1] in (0, 1))}
                    else:
                        want = {p for p in pairs0 if p[0] == "i"}
                    if _ext_pairs(m) != want:
                        w = [f"{op}: surviving (key, row, waveform) pairs {sorted(_ext_pairs(m))[:3]} != {sorted(want)[:3]}"]
                if recs0 is not None and not w:
                    # deleting recordings through a view removes exactly the recordings on the view's rows, every other one survives
                    want_r = sorted(p for p in recs0 if not (p[0] in rows_b2 and p[1] in m.nodes.columns))
                    got_r = sorted((int(r["rec_index"]), str(r["state"])) for _, r in m.recordings.iterrows())
                    if got_r != want_r:
                        w = [f"{op}: surviving recordings {got_r} != {want_r}"]
                out["evals"] += 1
                if w:
                    shared = _is_f10(trail, w)
                    (bad_wf_f10 if shared else bad_wf).append(f"{' ; '.join(trail)}: {w[:2]}")
                    ok = False
                    break
                if pre is not None and op in UNDO and len(trail) == len(h):
                    # deletions undo insertions (only checked when the channel was not present before)
                    chname = op.split("(")[1].split(")")[0]
                    if chname not in pre["channels"]:
                        try:
                            fn[UNDO[op]](m)
                            post = snapshot(m)
                            if not same_tables(pre, post) or wf(m):
                                shared = _shares(chname, pre["channels"])
                                # F25: the INSERTION overwrote a value that had been set() for a parameter column the new channel shares with
                                # a present one (vt of Na / K) - the only column that then differs is that shared parameter
                                diff_cols = [c for c in pre["nodes"].columns if c in post["nodes"].columns and not pre["nodes"][c].equals(post["nodes"][c])]
                                f25 = shared and any(t.startswith("set(vt)") for t in trail[:-1]) and chname in ("Na", "K") and diff_cols == ["vt"] and list(pre["nodes"].columns) == list(post["nodes"].columns)
                                (bad_undo_f25 if f25 else (bad_undo_f10 if shared else bad_undo)).append(f"{' ; '.join(trail)} ; {UNDO[op]}: tables differ from the state before the insertion" + (f" (columns {diff_cols})" if diff_cols else ""))
                        except Exception as e:
                            bad_undo.append(f"{' ; '.join(trail)} ; {UNDO[op]}: raised {type(e).__name__}: {str(e)[:60]}")
            if ok:
                out["cases"] += 1
                key = (tuple(sorted(c._name for c in m.channels)), len(m.recordings), tuple(sorted(m.externals)), len(m.trainable_params), len(m.nodes))
                if key not in seen_states and len(out["states"]) < (3 if tier == "quick" else 10):
                    seen_states.add(key)
                    out["states"].append(h)
        nm = f"history[{kind}]"
        out["results"].append(_res(f"{nm}:every accepted operation re-establishes the representation invariant wf(module)", not bad_wf, " | ".join(bad_wf[:2]), backend="bounded-evaluation"))
        out["results"].append(_res(f"{nm}:wf after delete_channel of a channel that shares a parameter column or current name with a remaining channel", not bad_wf_f10, " | ".join(bad_wf_f10[:2]), backend="bounded-evaluation"))
        out["results"].append(_res(f"{nm}:deleting a freshly inserted channel restores the tables (no other mechanism damaged)", not bad_undo, " | ".join(bad_undo[:2]), backend="bounded-evaluation"))
        out["results"].append(_res(f"{nm}:deleting a freshly inserted channel that shares a column / current name with a present channel restores the tables", not bad_undo_f10, " | ".join(bad_undo_f10[:2]), backend="bounded-evaluation"))
        nm25 = f"{nm}:deleting a freshly inserted channel restores a shared parameter (vt) that had been set() before the insertion"
        out["results"].append(_res(nm25, not bad_undo_f25, " | ".join(bad_undo_f25[:2]), backend="bounded-evaluation"))
        if bad_undo_f25:
            out["witness"][nm25] = {"shared_param_set_before_insert": True, "n": len(bad_undo_f25)}
        for nme, lst in ((f"{nm}:wf after delete_channel of a channel that shares a parameter column or current name with a remaining channel", bad_wf_f10),
                         (f"{nm}:deleting a freshly inserted channel that shares a column / current name with a present channel restores the tables", bad_undo_f10)):
            if lst:
                out["witness"][nme] = {"shared": True}
    except Exception as e:
        out["error"] = f"{type(e).__name__}: {e}\n{traceback.format_exc(limit=8)}"
    return out


def _ext_pairs(m):
    out = set()
    for k in m.externals:
        vals, inds = np.asarray(m.externals[k]), np.asarray(m.external_inds[k])
        for j in range(min(len(inds), vals.shape[0])):
            out.add((k, int(inds[j]), tuple(np.round(vals[j], 9).tolist())))
    return out


SHARED = {"Na": {"vt", "eNa"}, "K": {"vt", "eK", "i_K"}, "Km": {"eK", "i_K"}, "CaL": {"eCa", "i_Ca"}, "CaT": {"eCa", "i_Ca"}, "HH": set()}


def _shares(ch, others):
    return any(SHARED.get(ch, set()) & SHARED.get(o, set()) for o in others if o != ch)


def _is_f10(trail, w):
    """the violated clauses concern a column / current shared between a deleted channel and another one in the history"""
    dels = [op.split("(")[1].split(")")[0] for op in trail if op.startswith("delete_channel")]
    ins = [op.split("(")[1].split(")")[0] for op in trail if op.startswith("insert")]
    if not dels:
        return False
    return any(_shares(d, ins) for d in dels) and all(any(k in clause for k in ("vt", "eK", "eCa", "eNa", "membrane_current_names")) for clause in w)


def sim_worker(arg):
    """Tier P: in a reached state the real chain hands the solver the membrane terms of the model displayed by the tables"""
    kind, hist, tier = arg
    from .. import discharge as D
    from ..modsym import SymModule, mentions_poison
    from ..sym import Ctx, Proxy, Runtime, Sym, SymArray
    from ..specs import cable
    out = {"results": [], "error": "", "reached": {}}
    try:
        A = dict(alphabet(kind))
        m = template(kind)
        for op in hist:
            A[op](m)
        tag = f"{kind}: " + " ; ".join(hist)
        Ctx.reset()
        sm = SymModule(m)
        try:
            sm.prepare()
        except KeyError as e:
            out["results"].append(_res(f"integrate accepts the module or refuses with an error[{tag}]", True, f"refused: KeyError {e}", backend="structural"))
            return out
        N = len(m.nodes)
        ext, ext_inds = {}, {}
        for k, v in m.externals.items():
            ext[k] = SymArray(np.asarray([Sym(z3.Real(f"ext_{k}[{j}]")) for j in range(np.asarray(v).shape[0])], dtype=object))
            ext_inds[k] = np.asarray(m.external_inds[k])
        new = sm.step(externals=ext, external_inds=ext_inds)
        out["reached"].update(sm.rt.reached)
        kindc, kw, Hs = sm.solver_calls[-1]
        rt = Runtime()
        v = sm.states["v"]
        nodes = sm.nodes
        vt = [Sym(0)] * N
        ct = [Sym(0)] * N
        diff = Sym(0.001)
        ok_states = True
        for ch in m.channels:
            pch = Proxy(ch, rt)
            for r in range(N):
                if not bool(m.nodes.loc[r, ch._name]):
                    continue
                params = {k: nodes.loc[r, k] for k in ch.channel_params}
                params.update({k: nodes.loc[r, k] for k in ("radius", "length", "axial_resistivity")})
                st = {k: nodes.loc[r, k] for k in ch.channel_states}
                if any(not isinstance(x, Sym) for x in list(params.values()) + list(st.values())):
                    out["results"].append(_res(f"tables display every parameter of channel {ch._name} on row {r}[{tag}]", False, backend="structural"))
                    continue
                st_new = pch.update_states(dict(st), sm.dt, v[r], params)
                for k_, val in st_new.items():
                    got = new[k_][r]
                    if k_ in ext:          # clamped
                        continue
                    if not (got.e.eq(val.e) or z3.simplify(got.e - val.e).eq(z3.RealVal(0))):
                        ok_states = False
                st2 = {**st, **st_new}
                I0 = pch.compute_current(st2, v[r], params)
                I1 = pch.compute_current(st2, v[r] + diff, params)
                g = (I1 - I0) / diff
                vt[r] = vt[r] + g * 1000
                ct[r] = ct[r] - (I0 - g * v[r]) * 1000
        iext = [Sym(0)] * N
        if "i" in ext:
            for j, tgt in enumerate(ext_inds["i"]):
                iext[int(tgt)] = iext[int(tgt)] + ext["i"][j] * 100000 / (2 * cable.PI * nodes.loc[int(tgt), "radius"] * nodes.loc[int(tgt), "length"])
        # synapses (network)
        svt, sct = [Sym(0)] * N, [Sym(0)] * N
        import jaxley.synapses as SY
        for e in range(len(m.edges)):
            p, q, tname = int(m.edges.pre_global_comp_index[e]), int(m.edges.post_global_comp_index[e]), str(m.edges.type[e])
            syn = Proxy(getattr(SY, tname)(), rt)
            pn = {k: sm.edges[k][e] for k in syn.synapse_params}
            sn = {k: sm.edges[k][e] for k in syn.synapse_states}
            s_new = syn.update_states(dict(sn), sm.dt, v[p], v[q], pn)
            conv = lambda I: I * 100000 / (2 * cable.PI * nodes.loc[q, "radius"] * nodes.loc[q, "length"])
            I0 = conv(syn.compute_current({**sn, **s_new}, v[p], v[q], pn))
            I1 = conv(syn.compute_current({**sn, **s_new}, v[p], v[q] + diff, pn))
            g = (I1 - I0) / diff
            svt[q] = svt[q] + g
            sct[q] = sct[q] - (I0 - g * v[q])
        hy = [nodes.loc[r, k].e > 0 for r in range(N) for k in ("radius", "length", "capacitance")] + D.PI_FACTS
        goals = []
        for r in range(N):
            cm = nodes.loc[r, "capacitance"]
            goals.append(Sym.lift(kw["voltage_terms"][r]).e == ((vt[r] + svt[r]) / cm).e)
            goals.append(Sym.lift(kw["constant_terms"][r]).e == ((ct[r] + iext[r] + sct[r]) / cm).e)
        res = D.prove(f"integrate simulates the model displayed by .nodes/.edges/.externals: membrane terms handed to the voltage solver[{tag}]", hy, z3.And(*goals),
                      timeout_ms=60000, use_cvc5=False)
        out["results"].append(res.to_json())
        out["results"].append(_res(f"every mechanism state is updated from its own row[{tag}]", ok_states, backend="structural"))
        pois = any(mentions_poison(Sym.lift(kw["voltage_terms"][r])) or mentions_poison(Sym.lift(kw["constant_terms"][r])) for r in range(N))
        out["results"].append(_res(f"no simulated quantity depends on an absent (NaN) table cell[{tag}]", not pois, backend="structural"))
        if "v" in ext:
            okc = all(new["v"][int(t)].e.eq(ext["v"][j].e) for j, t in enumerate(ext_inds["v"]))
            out["results"].append(_res(f"clamped voltages equal their clamp sample[{tag}]", okc, backend="structural"))
    except Exception as e:
        out["error"] = f"{type(e).__name__}: {e}\n{traceback.format_exc(limit=8)}"
    return out


CANARIES = [
    ("cell", ("jaxley.modules.base:Module.insert", "src", "self.base.nodes.loc[self._nodes_in_view, name] = True", "self.base.nodes.loc[self._nodes_in_view[:-1], name] = True")),
    ("cell", ("jaxley.modules.base:Module.delete_clamps", "src", "base_exts_inds[state_name] = base_exts_inds[state_name][keep_inds]", "base_exts_inds[state_name] = np.setdiff1d(base_exts_inds[state_name], self._nodes_in_view)")),
]


def main(tier):
    ck = Check(PID, tier, level="exploration")
    nch = 6
    args = [(k, tier, c, nch, None) for k in ("cell", "net") for c in range(nch)]
    outs = run_units("jxverif.props.C19", "history_worker", args + [(k, "quick", 0, 1, c) for k, c in CANARIES])
    evals = cases = refused = 0
    states = []
    merged = {}
    for (k, _, c, _, _), o in zip(args, outs[:len(args)]):
        if o[0] != "ok" or o[1]["error"]:
            ck.error(str(o[1] if o[0] != "ok" else o[1]["error"])[:900])
            continue
        o = o[1]
        evals += o["evals"]
        cases += o["cases"]
        refused += o["refused"]
        states += [(k, h) for h in o["states"]]
        for r in o["results"]:
            cur = merged.setdefault(r["name"], dict(r))
            if r["status"] == "refuted" and cur["status"] != "refuted":
                merged[r["name"]] = dict(r)
            if r["status"] == "refuted":
                merged[r["name"]]["witness"] = o["witness"].get(r["name"])
    for name, r in merged.items():
        w = r.pop("witness", None)
        if r["status"] == "refuted":
            kf = ck.match_known(name, w)
            if kf:
                ck.known_finding(kf, kf["what"] + " [re-confirmed natively]")
                ck.extra.setdefault("known_finding_obligations", []).append({"name": name, "detail": r["detail"][:400]})
                continue
            ck.add(r)
            ck.violation(name, {"solver": r["backend"], "solver_output": r["detail"], "kind": "c19"}, reproduced=True)
        else:
            ck.add(r)
    # Tier P on reached states
    states = states[: (8 if tier == "quick" else 30)]
    outs_s = run_units("jxverif.props.C19", "sim_worker", [(k, h, tier) for k, h in states])
    for o in outs_s:
        if o[0] != "ok" or o[1]["error"]:
            ck.error(str(o[1] if o[0] != "ok" else o[1]["error"])[:900])
            continue
        for r in o[1]["results"]:
            ck.add(r)
            if r["status"] == "refuted":
                ck.violation(r["name"], {"solver": r["backend"], "solver_output": r["detail"], "model": r.get("model", {}), "kind": "c19-sim"}, reproduced=False)
        ck.extra.setdefault("code_reached", {}).update({k: v for k, v in o[1]["reached"].items() if k.startswith("jaxley")})
    for (k, can), oc in zip(CANARIES, outs[len(args):]):
        ref = oc[0] == "ok" and not oc[1]["error"] and any(r["status"] != "proved" for r in oc[1]["results"])
        ck.canary(f"{can[0]}: {can[2][:50]!r} -> {can[3][:50]!r}", ref, oc)
    ck.bounded = {"evaluations": evals, "distinct_nontrivial": cases, "exhaustive": tier != "quick", "refused_operations": refused, "states_simulated_symbolically": len(states),
                  "rule": "alphabet of 35 (cell) / 39 (network) view x operation letters (insert/delete_channel of HH, Na, K, Km, CaT, CaL on various views; set; add_to_group; record; delete_recordings; stimulate; clamp; delete_stimuli (view and module); delete_clamps; "
                          "make_trainable; delete_trainables; init_states; set_ncomp (cell) / connect and set on a synapse view (network)) on an irregular cell (ncomp [2,1,3]) and a 2-cell network with 2 synapse types; all histories of depth 1 and 2, depth 3 with stride 37 (quick) / all (thorough); "
                          "wf evaluated after every accepted operation (evaluations); a case = a distinct fully accepted history"}
    for f in ("jaxley.modules.base.Module.insert", "jaxley.modules.base.Module.delete_channel", "jaxley.modules.base.Module.set", "jaxley.modules.base.Module.set_ncomp", "jaxley.modules.base.Module.add_to_group",
              "jaxley.modules.base.Module.record", "jaxley.modules.base.Module.delete_recordings", "jaxley.modules.base.Module.stimulate", "jaxley.modules.base.Module.clamp", "jaxley.modules.base.Module.delete_stimuli",
              "jaxley.modules.base.Module.delete_clamps", "jaxley.modules.base.Module.make_trainable", "jaxley.modules.base.Module.delete_trainables", "jaxley.modules.base.Module.init_states", "jaxley.connect.connect"):
        ck.add_function(f, "bounded")
    for f in ("jaxley.modules.base.Module.to_jax", "jaxley.modules.base.Module.get_all_parameters", "jaxley.modules.base.Module.get_all_states", "jaxley.modules.base.Module.step"):
        ck.add_function(f, "body discharged" if not ck.violations else "body NOT discharged")
    ck.trusted = ["the invariant wf() in this file states what 'mutually consistent tables' means", "mechanism kernels themselves: C03/C04; the voltage solve: C01"]
    ck.assumptions += ["level: exploration for the invariant (bounded histories); 'simulates its tables' is proved for all values per sampled reached state",
                       "an operation that raises ends the history (a refusal), it is not a violation"]
    return ck.finish(rule=ck.bounded["rule"])
