"""Shared driver code: verify a list of contracts (one worker per contract), native replay of kernel
counter-models (E3), in-memory canaries (E7)."""
from __future__ import annotations

import ast
import importlib
import inspect
import math
import sys
import textwrap
import time
import types
from fractions import Fraction

import mpmath
import numpy as np
import z3

from .. import discharge as D
from ..contracts import Contract, Registry, body_obligations, leaves, resolve, run_body, TargetMissing
from ..sym import Sym, SymArray, Unsupported, zeval

QUICK_MS, THOROUGH_MS = 30000, 120000


def budget(tier):
    if tier == "canary":
        return 5000
    return QUICK_MS if tier == "quick" else THOROUGH_MS


# ----------------------------------------------------------------------------------------------
def verify_one(c: Contract, reg: Registry, tier="quick", strict=False, only=None, extra_hyps=None, patch=None):
    """Body obligation of one contract.  -> dict(target, results=[...], error, error_kind, reached, api_calls).
    `patch`: optional callable applied before the run that swaps the target's code object (canaries)."""
    out = {"target": c.target, "results": [], "error": "", "error_kind": "", "reached": {}, "api_calls": {}}
    undo = None
    try:
        if patch is not None:
            undo = patch()
        run = run_body(c, reg)
    except TargetMissing as e:
        out["error"], out["error_kind"] = str(e), ("missing-optional" if c.optional and patch is None else "missing")
        return out
    finally:
        if undo is not None:
            undo()
    out["reached"], out["api_calls"] = run.reached, run.api_calls
    if run.error:
        out["error"], out["error_kind"] = run.error, run.error_kind
        return out
    # the real code of the target must actually have been executed
    qn = c.target.split("#")[0].replace(":", ".")
    if not any(k == qn or k.endswith("." + c.target.split("#")[0].split(":")[1]) for k in run.reached):
        out["error"], out["error_kind"] = f"target code {qn} was not reached", "missing"
        return out
    obls = body_obligations(run, strict=strict, only=only)
    if extra_hyps:
        eh = extra_hyps(run.args)
        obls = [(n, h + eh, g) for n, h, g in obls]
    # vacuity guard
    vac = D.satisfiable(run.hyps + (extra_hyps(run.args) if extra_hyps else []))
    if vac == "unsat":
        out["error"], out["error_kind"] = "contradictory requires (vacuous contract)", "vacuous"
        return out
    boxes = c.boxes(run.args) if c.boxes else {}
    for name, hyps, goal in obls:
        res = D.prove(name, hyps, goal, timeout_ms=budget(tier))
        if tier == "canary" and res.status == "refuted":
            out["results"].append(res.to_json())
            break
        if res.status == "unknown" and boxes and tier != "canary":
            w = D.witness_search(hyps, goal, boxes, c.special, n=2000 if tier == "quick" else 20000)
            if w is not None:
                res.status, res.backend = "refuted", "witness-search"
                res.model = {k: str(v) for k, v in w.items()}
                res.detail = "found by native evaluation with the true functions (obligation was undecided by the solver)"
        out["results"].append(res.to_json())
    return out


def worker_verify(arg):
    """spawn-pool entry: arg = (registry module, registry attr, target, tier, strict, only_prefixes, canary)"""
    regmod, regattr, target, tier, strict, only_names, canary = arg
    reg = getattr(importlib.import_module(regmod), regattr)
    c = reg[target]
    only = (lambda n: any(n.startswith(p) or p in n for p in only_names)) if only_names else None
    patch = None
    if canary:
        patch = lambda: apply_canary(*canary)
    return verify_one(c, reg, tier, strict, only, patch=patch)


# ----------------------------------------------------------------------------------------------
# native replay of a kernel counter-model
# ----------------------------------------------------------------------------------------------
def _to_native(x, env):
    if isinstance(x, Sym):
        if x.c is not None:
            return float(x.c)
        nm = str(x.e)
        v = env.get(nm, 0)
        return float(Fraction(v)) if not isinstance(v, float) else v
    if isinstance(x, dict):
        return {k: _to_native(v, env) for k, v in x.items()}
    if isinstance(x, (list, tuple)):
        return type(x)(_to_native(v, env) for v in x)
    return x


def _to_const(x):
    """native result -> structure of Sym constants (exact binary value of each float)"""
    if isinstance(x, dict):
        return {k: _to_const(v) for k, v in x.items()}
    if isinstance(x, (list, tuple)):
        return type(x)(_to_const(v) for v in x)
    a = np.asarray(x)
    if a.shape == ():
        f = float(a)
        if not math.isfinite(f):
            return None
        return Sym(Fraction(f))
    return [_to_const(v) for v in a]


def _all_finite(x):
    if isinstance(x, dict):
        return all(_all_finite(v) for v in x.values())
    if isinstance(x, (list, tuple)):
        return all(_all_finite(v) for v in x)
    return bool(np.all(np.isfinite(np.asarray(x, dtype=float))))


def lenient(goal, env, tol=1e-9):
    """evaluate a goal with the true functions, comparisons relaxed by tol (relative): True if it holds up to rounding"""
    memo = {}

    def ev(e):
        if z3.is_true(e): return True
        if z3.is_false(e): return False
        k = e.decl().kind()
        ch = e.children()
        if k == z3.Z3_OP_AND: return all(ev(c) for c in ch)
        if k == z3.Z3_OP_OR: return any(ev(c) for c in ch)
        if k == z3.Z3_OP_IMPLIES: return (not zeval(ch[0], env, mpmath, memo)) or ev(ch[1])
        if k == z3.Z3_OP_NOT: return not zeval(ch[0], env, mpmath, memo)
        if k in (z3.Z3_OP_LE, z3.Z3_OP_LT, z3.Z3_OP_GE, z3.Z3_OP_GT, z3.Z3_OP_EQ):
            a, b = zeval(ch[0], env, mpmath, memo), zeval(ch[1], env, mpmath, memo)
            if isinstance(a, bool):
                return a == b
            sl = tol * max(1, abs(a), abs(b))
            if k == z3.Z3_OP_LE or k == z3.Z3_OP_LT: return a <= b + sl
            if k == z3.Z3_OP_GE or k == z3.Z3_OP_GT: return a + sl >= b
            return abs(a - b) <= sl
        return bool(zeval(e, env, mpmath, memo))
    return ev(goal)


def replay_kernel(c: Contract, obligation: str, model: dict):
    """Run the real function natively (real jax, float64) at the counter-model and decide whether the refuted
    statement is reproduced."""
    import jax
    jax.config.update("jax_enable_x64", True)
    owner, fn = resolve(c.target)
    env = {k: Fraction(v) for k, v in model.items() if not k.startswith("NaN!")}
    a = c.inputs()
    nat = _to_native(a, env)
    info = {"target": c.target, "native_inputs": _jsonable(nat)}
    try:
        is_method = owner is not None and not isinstance(inspect.getattr_static(owner, fn.__name__), staticmethod)
        if is_method:
            inst = c.self_factory() if c.self_factory else owner()
            res = getattr(inst, fn.__name__)(**nat)
        elif owner is not None:
            res = getattr(owner, fn.__name__)(**nat)
        else:
            res = getattr(importlib.import_module(fn.__module__), fn.__name__)(**nat)
    except Exception as e:
        info.update(native_error=f"{type(e).__name__}: {e}", reproduced=True, reason="the real function raises on this input")
        return info
    info["native_result"] = _jsonable(res)
    if not _all_finite(res):
        info.update(reproduced=True, reason="the real function returns a non-finite value at this input")
        return info
    if "no overflow" in obligation and c.boxes:
        # the model only has to exceed the proof bound (700); float64 overflows at 709.8: look for a failing input at the
        # corners of the contract's domain, starting from the model
        import itertools
        boxes = c.boxes(a)
        names = sorted(boxes)
        for corner in itertools.islice(itertools.product(*[(boxes[k][1], boxes[k][0]) for k in names]), 128):
            env2 = dict(env)
            env2.update({k: Fraction(str(v)) for k, v in zip(names, corner)})
            nat2 = _to_native(a, env2)
            try:
                r2 = (getattr(inst, fn.__name__)(**nat2) if is_method else (getattr(owner, fn.__name__)(**nat2) if owner is not None else getattr(importlib.import_module(fn.__module__), fn.__name__)(**nat2)))
            except Exception:
                continue
            if not _all_finite(r2):
                info.update(native_inputs=_jsonable(nat2), native_result=_jsonable(r2), reproduced=True,
                            reason="the real function returns a non-finite value at this corner of the contract's domain (exp overflow)")
                return info
    if ":strict#" in obligation:
        # branch-insensitive definedness: an undefined value in an UNSELECTED branch of a where poisons the derivative
        # (0 * nan): replay = reverse-mode derivative of the real function at the model, w.r.t. every float leaf
        try:
            call = (lambda kw: getattr(inst, fn.__name__)(**kw)) if is_method else ((lambda kw: getattr(owner, fn.__name__)(**kw)) if owner is not None else (lambda kw: getattr(importlib.import_module(fn.__module__), fn.__name__)(**kw)))
            import jax.numpy as rjnp
            flt = {k: v for k, v in nat.items() if _is_float_tree(v)}
            rest = {k: v for k, v in nat.items() if k not in flt}

            def scalar(fl):
                leaves = jax.tree_util.tree_leaves(call({**rest, **fl}))
                return sum(rjnp.sum(rjnp.asarray(l, dtype=float)) for l in leaves)
            g = jax.grad(scalar)(jax.tree_util.tree_map(lambda v: rjnp.asarray(v, dtype=float), flt))
            info["native_gradient"] = _jsonable(g)
            if not _all_finite(g):
                info.update(reproduced=True, reason="the value is finite but jax.grad of the real function is non-finite at this input (an undefined value in an unselected branch)")
                return info
        except Exception as e:
            info["native_gradient_error"] = f"{type(e).__name__}: {e}"
    part = obligation.split(":", 1)[1] if ":" in obligation else obligation
    ens = None
    for name, e in c.ensures.items():
        if part == name or part.endswith(":" + name) or part.endswith(name):
            ens = e
    if ens is None:
        info.update(reproduced=False, reason="obligation is not a postcondition that can be evaluated natively (definedness/callee precondition); native result is finite")
        return info
    consts = _to_const(res)
    aa = _consts_like(a, nat)
    aa.pop("self", None)
    try:
        g = ens(aa, consts)
        ok = lenient(g, {})
    except Exception as e:
        info.update(reproduced=False, reason=f"native evaluation of the postcondition failed: {type(e).__name__}: {e}")
        return info
    info.update(reproduced=not ok, reason="postcondition evaluated on the native float64 result (relative slack 1e-9): " + ("violated" if not ok else "holds within rounding"))
    return info


def _is_float_tree(v):
    import jax
    leaves = jax.tree_util.tree_leaves(v)
    return bool(leaves) and all(isinstance(l, (float, np.floating)) or (hasattr(l, "dtype") and np.issubdtype(np.asarray(l).dtype, np.floating)) for l in leaves)


def _consts_like(a, nat):
    if isinstance(a, Sym):
        return Sym(Fraction(float(nat)))
    if isinstance(a, dict):
        return {k: _consts_like(a[k], nat[k]) for k in a}
    if isinstance(a, (list, tuple)):
        return type(a)(_consts_like(x, y) for x, y in zip(a, nat))
    return a


def _jsonable(x):
    if isinstance(x, dict):
        return {str(k): _jsonable(v) for k, v in x.items()}
    if isinstance(x, (list, tuple)):
        return [_jsonable(v) for v in x]
    try:
        a = np.asarray(x, dtype=float)
        return a.tolist()
    except Exception:
        return str(x)


# ----------------------------------------------------------------------------------------------
# canaries: in-memory AST mutants of real functions (nothing is written to /repo)
# ----------------------------------------------------------------------------------------------
def apply_canary(target, kind, old, new):
    """Swap the code object of `target` for a mutated compile of its own source; returns an undo callable.
    kind='const': replace numeric literal `old` by `new`;  kind='src': textual replacement in the function source."""
    import __future__
    owner, fn = resolve(target)
    src = textwrap.dedent(inspect.getsource(fn))
    if kind == "src":
        if old not in src:
            raise TargetMissing(f"canary: pattern {old!r} not found in {target}")
        src2 = src.replace(old, new, 1)
    else:
        tree = ast.parse(src)
        hit = [0]

        class T(ast.NodeTransformer):
            def visit_Constant(self, node):
                if isinstance(node.value, (int, float)) and not isinstance(node.value, bool) and node.value == old and not hit[0]:
                    hit[0] = 1
                    return ast.copy_location(ast.Constant(new), node)
                return node
        tree = T().visit(tree)
        if not hit[0]:
            raise TargetMissing(f"canary: literal {old!r} not found in {target}")
        src2 = ast.unparse(tree)
    tree = ast.parse(src2)
    fdef = tree.body[0]
    fdef.decorator_list = []
    code = compile(ast.Module(body=[fdef], type_ignores=[]), inspect.getsourcefile(fn), "exec",
                   flags=__future__.annotations.compiler_flag)
    ns = {}
    exec(code, dict(fn.__globals__), ns)
    newfn = ns[fn.__name__]
    old_code = fn.__code__
    if newfn.__code__.co_freevars != old_code.co_freevars:
        raise TargetMissing(f"canary: {target} uses closure variables")
    fn.__code__ = newfn.__code__

    def undo():
        fn.__code__ = old_code
    return undo


# ----------------------------------------------------------------------------------------------
# known findings inside workers: re-prove the obligation with the listed region excluded
# ----------------------------------------------------------------------------------------------
def region_z3(rec):
    return eval(rec["region_z3"], {"__builtins__": {}}, {"R": z3.Real, "And": z3.And, "Or": z3.Or, "Not": z3.Not, "q": lambda s: z3.RealVal(s)})


def apply_known(known, name, hyps, goal, res, tier):
    """res: Result (refuted).  If a known finding lists this obligation and the witness lies in its region, the
    obligation is re-proved on the domain minus the region: proved -> status 'known-finding'; refuted again ->
    a different violation (returned as such, with the new witness)."""
    import fnmatch
    from fractions import Fraction
    if res.status != "refuted":
        return res
    for rec in known or []:
        if not fnmatch.fnmatchcase(name, rec["obligation"]):
            continue
        if "region_z3" not in rec:
            continue
        reg = region_z3(rec)
        env = {k: Fraction(v) for k, v in res.model.items() if "/" in str(v) or str(v).lstrip("-").replace(".", "").isdigit()}
        try:
            inside = bool(zeval(reg, env, mpmath))
        except Exception:
            inside = False
        if not inside:
            continue
        r2 = D.prove(name, hyps + [z3.Not(reg)], goal, timeout_ms=budget(tier))
        if r2.status == "proved":
            res.status = "known-finding"
            res.detail = f"{rec['id']}: witness inside the listed region; obligation discharged on the domain minus the region ({r2.backend}, {r2.time_s:.2f}s)"
            res.model = dict(res.model, known_id=rec["id"])
            return res
        if r2.status == "refuted":
            r2.detail = f"violation OUTSIDE the region of known finding {rec['id']}: " + r2.detail
            return r2
        r2.detail = f"undecided on the domain minus the region of {rec['id']}: " + r2.detail
        return r2
    return res
