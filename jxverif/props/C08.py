"""C08 - recordings and inputs land on the right row, compartment and time step."""
from __future__ import annotations

import itertools
import traceback

import numpy as np
import z3

from ..core import Check, run_units
from . import e4

PID = "C08"


def _res(name, ok, detail="", backend="euf"):
    return {"name": name, "status": "proved" if ok else "refuted", "backend": backend, "time_s": 0.0, "model": {}, "detail": detail[:600]}


def time_axis_worker(arg):
    """E4: real integrate/add_stimuli/add_clamps with an uninterpreted step function"""
    tier, lo, hi, canary = arg
    from .. import ufterm as U
    from . import common
    out = {"results": [], "error": "", "refused": []}
    undo = common.apply_canary(*canary) if canary else None
    try:
        fns = U.real_functions()
        S = e4.scenarios(tier)[lo:hi]
        for sc in S:
            lab = sc.label()
            o = e4.run_integrate(sc, fns)
            short_clamp = any(True for _ in sc.clamps) and sc.t_max is not None and sc.nsteps() > sc.T_len
            if "exception" in o and o.get("engine_limit") and not short_clamp:
                out.setdefault("limits", []).append(f"{lab}: {o['exception']}")
                continue
            if "exception" in o:
                if short_clamp and o["exception"].startswith("NotImplementedError"):
                    out["refused"].append(f"{lab}: {o['exception']}")
                    out["results"].append(_res(f"integrate:refuses a clamp shorter than the run[{lab}]", True))
                else:
                    out["results"].append(_res(f"integrate:accepts the scenario[{lab}]", False, o["exception"] + " " + o.get("trace", "")))
                continue
            if short_clamp:
                out["results"].append(_res(f"integrate:refuses a clamp shorter than the run[{lab}]", False, "no error raised"))
                continue
            ok, d = e4.recs_match(o["recs"], sc, e4.spec_for(sc))
            out["results"].append(_res(f"integrate:row r = r-th record() call, column 0 = initial state, column k = state after k steps, sample k acts in step k+1, inputs reach their targets[{lab}]", ok, d))
            if not ok:
                out["results"][-1]["model"] = {"scenario": e4.scenario_dict(sc)}
            out["results"].append(_res(f"integrate:frame - no attribute of the module written, externals/external_inds unchanged[{lab}]", not o["writes"] and o["frame_ok"], str(o["writes"])))
            out["results"].append(_res(f"integrate:to_jax first, parameters and states initialised once[{lab}]", o["calls"][:3] == ["to_jax", "get_all_parameters", "get_all_states"] and o["calls"].count("get_all_states") == 1, str(o["calls"][:5])))
    except Exception as e:
        out["error"] = f"{type(e).__name__}: {e}\n{traceback.format_exc(limit=8)}"
    finally:
        if undo:
            undo()
    return out


def step_worker(arg):
    """real Module.step with symbolic tables: clamps; recording gather denotes the requested compartment / synapse"""
    tier, canary = arg
    from . import common
    undo = common.apply_canary(*canary) if canary else None
    try:
        return _step_worker(tier)
    finally:
        if undo:
            undo()


def _step_worker(tier):
    import jax
    jax.config.update("jax_enable_x64", True)
    import jaxley as jx
    from jaxley.channels import HH
    from jaxley.connect import connect
    from jaxley.synapses import IonotropicSynapse, TestSynapse
    from .. import discharge as D
    from ..modsym import SymModule
    from ..sym import Ctx, IndexOutOfBounds, Sym, SymArray
    out = {"results": [], "error": "", "refused": [], "reached": {}, "witness": {}}
    try:
        # ---- clamps in Module.step
        comp = jx.Compartment()
        cell = jx.Cell([jx.Branch(comp, ncomp=n) for n in (2, 1, 2)], parents=[-1, 0, 0])
        cell.insert(HH())
        for solver in ("bwd_euler", "crank_nicolson"):
            Ctx.reset()
            sm = SymModule(cell)
            sm.prepare()
            cv, cm_ = Sym(z3.Real("clamp_v")), Sym(z3.Real("clamp_m"))
            ext = {"v": SymArray(np.asarray([cv], dtype=object)), "HH_m": SymArray(np.asarray([cm_], dtype=object))}
            inds = {"v": np.asarray([3]), "HH_m": np.asarray([1])}
            new = sm.step(externals=ext, external_inds=inds, solver=solver)
            Ctx.reset()
            sm2 = SymModule(cell)
            sm2.prepare()
            ref = sm2.step(solver=solver)
            out["reached"].update(sm.rt.reached)
            N = 5
            ok_v = new["v"][3].e.eq(cv.e)
            ok_m = new["HH_m"][1].e.eq(cm_.e)
            out["results"].append(_res(f"Module.step[{solver}]:clamped v equals the clamp sample after the solve", ok_v, backend="structural"))
            out["results"].append(_res(f"Module.step[{solver}]:clamped HH_m equals the clamp sample after the mechanism step", ok_m, backend="structural"))
            # the solver must have received the UNclamped current voltage and the clamped gate's current
            same_others = all(z3.simplify(new["HH_m"][i].e - ref["HH_m"][i].e).eq(z3.RealVal(0)) for i in range(N) if i != 1) and \
                all(z3.simplify(new["HH_h"][i].e - ref["HH_h"][i].e).eq(z3.RealVal(0)) for i in range(N))
            out["results"].append(_res(f"Module.step[{solver}]:a clamp changes no other mechanism state", same_others, backend="structural"))
        # ---- recording gather: requested compartment / synapse
        net = jx.Network([jx.Cell() for _ in range(4)])
        connect(net.cell(0), net.cell(1), IonotropicSynapse())
        connect(net.cell(1), net.cell(2), TestSynapse())
        connect(net.cell(2), net.cell(3), IonotropicSynapse())
        connect(net.cell(3), net.cell(0), IonotropicSynapse())
        net.cell(2).record("v", verbose=False)
        net.IonotropicSynapse.edge(0).record("IonotropicSynapse_s", verbose=False)
        net.IonotropicSynapse.edge(1).record("IonotropicSynapse_s", verbose=False)
        net.IonotropicSynapse.edge(2).record("IonotropicSynapse_s", verbose=False)
        net.TestSynapse.edge(0).record("TestSynapse_c", verbose=False)
        # what was requested (by construction of this scenario): v of cell 2; s of edge rows 0, 2, 3; c of edge row 1
        requested = [("v", "v[2]"), ("IonotropicSynapse_s", "IonotropicSynapse_s[0]"), ("IonotropicSynapse_s", "IonotropicSynapse_s[2]"),
                     ("IonotropicSynapse_s", "IonotropicSynapse_s[3]"), ("TestSynapse_c", "TestSynapse_c[1]")]
        Ctx.reset()
        sm = SymModule(net)
        sm.prepare()
        recs = net.recordings
        ok_len = len(recs) == len(requested)
        out["results"].append(_res("record:one row per recording in call order", ok_len and list(recs.state) == [s for s, _ in requested], backend="structural"))
        if ok_len:
            for r, ((state, want), idx) in enumerate(zip(requested, recs.rec_index.to_numpy())):
                nm = f"integrate:recording row {r} ({state}) gathers the state of the requested {'synapse' if state != 'v' else 'compartment'} ({want})"
                arr = sm.states[state]
                try:
                    got = arr[int(idx)]
                    ok = str(got.e) == want
                    out["results"].append(_res(nm, ok, f"gather index {int(idx)} into an array of length {len(arr)} yields {got.e}", backend="structural"))
                    if not ok:
                        out["witness"][nm] = _rank_witness(net, state, idx)
                except IndexOutOfBounds as e:
                    out["results"].append(_res(nm, False, f"index obligation failed: {e} (JAX would clamp silently)", backend="structural"))
                    out["witness"][nm] = _rank_witness(net, state, idx)
        out["reached"].update(sm.rt.reached)
    except Exception as e:
        out["error"] = f"{type(e).__name__}: {e}\n{traceback.format_exc(limit=8)}"
    return out


def _rank_witness(net, state, idx):
    """global edge index of the recorded synapse and its rank within its synapse type (what the per-type array is indexed by)"""
    if state == "v":
        return {"global_index": int(idx), "rank_in_type": int(idx), "is_synapse": False}
    e = net.edges
    typ = e.loc[int(idx), "type"]
    rank = int((e.loc[: int(idx), "type"] == typ).sum()) - 1
    return {"global_index": int(idx), "rank_in_type": rank, "is_synapse": True, "edge_types": list(e["type"])}


def stimulus_worker(tier):
    """step_current / datapoint_to_step_currents: amplitudes symbolic (all values), times on a grid (bounded)"""
    import jaxley.stimulus as ST
    from ..sym import Ctx, Runtime, Sym, SymArray
    out = {"results": [], "error": "", "refused": [], "bounded": 0}
    try:
        rt = Runtime()
        f1 = rt.reglob(ST.step_current)
        f2 = rt.reglob(ST.datapoint_to_step_currents)
        amp, off = Sym(z3.Real("i_amp")), Sym(z3.Real("i_offset"))
        grid = list(itertools.product((0.0, 0.5, 1.0, 2.5), (0.0, 0.3, 1.0, 10.0), (0.025, 0.1, 0.5), (1.0, 2.0, 5.0)))
        bad = []
        for delay, dur, dt, t_max in grid:
            Ctx.reset()
            cur = f1(delay, dur, amp, dt, t_max, off)
            ws, we, n = int(delay / dt), int((delay + dur) / dt), int(t_max // dt) + 2
            ok = len(cur) == n and all((cur[k].e.eq(amp.e) if ws <= k < we else z3.simplify(cur[k].e).eq(off.e)) for k in range(n))
            cur2 = f2(delay, dur, SymArray(np.asarray([amp, Sym(z3.Real("i_amp2"))], dtype=object)), dt, t_max, off)
            ok2 = np.shape(cur2) == (2, n) and all((cur2[0][k].e.eq(amp.e) if ws <= k < we else z3.simplify(cur2[0][k].e).eq(off.e)) for k in range(n))
            if not (ok and ok2):
                bad.append((delay, dur, dt, t_max))
            out["bounded"] += 1
        out["results"].append(_res(f"stimulus.step_current/datapoint_to_step_currents:sample k == i_amp iff floor(delay/dt) <= k < floor((delay+dur)/dt), else i_offset; length floor(t_max/dt)+2 [all amplitudes; {len(grid)} (delay,dur,dt,t_max) grid points - bounded]",
                                   not bad, str(bad[:3]), backend="structural"))
    except Exception as e:
        out["error"] = f"{type(e).__name__}: {e}\n{traceback.format_exc(limit=8)}"
    return out


CANARIES_T = [
    ("jaxley.integrate:integrate", "src", "recordings[:nsteps_to_return]", "recordings[: nsteps_to_return - 1]"),
    ("jaxley.integrate:add_stimuli", "src", "externals[\"i\"] = jnp.concatenate([externals[\"i\"], data_stimuli[1]])", "externals[\"i\"] = jnp.concatenate([data_stimuli[1], externals[\"i\"]])"),
    ("jaxley.integrate:integrate", "src", "externals[key] = externals[key][:t_max_steps, :]", "externals[key] = externals[key][1 : t_max_steps + 1, :]"),
]
CANARIES_S = [
    ("jaxley.modules.base:Module.step", "src", "u[\"v\"] = u[\"v\"].at[external_inds[\"v\"]].set(externals[\"v\"])", "pass"),
]


def main(tier):
    ck = Check(PID, tier)
    n = len(e4.scenarios(tier))
    chunks = [(tier, lo, min(lo + 10, n), None) for lo in range(0, n, 10)]
    outs = run_units("jxverif.props.C08", "time_axis_worker", chunks + [("quick", 0, 10**6, c) for c in CANARIES_T])
    outs_s = run_units("jxverif.props.C08", "step_worker", [(tier, None)] + [("quick", c) for c in CANARIES_S])
    outs_st = run_units("jxverif.props.C08", "stimulus_worker", [tier])
    for o in outs[:len(chunks)] + outs_s[:1] + outs_st:
        if o[0] != "ok" or o[1]["error"]:
            ck.error(str(o[1] if o[0] != "ok" else o[1]["error"])[:800])
            continue
        o = o[1]
        ck.refused += o.get("refused", [])
        n_native = locals().get("n_native", 0)
        for l in o.get("limits", [])[:3]:
            ck.error(f"engine limit (the real code raised only under the uninterpreted-step stubs, natively it runs): {l[:300]}")
        for r in o["results"]:
            if r["status"] == "refuted":
                kf = ck.match_known(r["name"], o.get("witness", {}).get(r["name"]))
                if kf:
                    rp = replay_record_synapse()
                    ck.known_finding(kf, kf["what"] + (" [re-confirmed natively]" if rp.get("reproduced") else " [NOT reproduced natively this run]"))
                    ck.extra.setdefault("known_finding_obligations", []).append({"name": r["name"], "detail": r["detail"], "replay": rp})
                    continue
                ck.add(r)
                rp = replay_record_synapse() if "recording row" in r["name"] else (e4.native_replay(r["model"]["scenario"]) if (r.get("model") or {}).get("scenario") and n_native < 3 else {"reproduced": False})
                n_native += 1 if (r.get("model") or {}).get("scenario") else 0
                ck.violation(r["name"], {"solver": r["backend"], "solver_output": r["detail"], "kind": "c08", "replay_module": "jxverif.props.C08", "replay": rp, "model": r.get("model", {})},
                             reproduced=rp.get("reproduced", False))
            else:
                ck.add(r)
        if "bounded" in o:
            ck.bounded = {"evaluations": o["bounded"], "distinct_nontrivial": o["bounded"], "exhaustive": True,
                          "rule": "step_current/datapoint_to_step_currents: full grid of (delay,dur,dt,t_max) with symbolic amplitudes; every grid point distinct"}
        ck.extra.setdefault("code_reached", {}).update({k: v for k, v in o.get("reached", {}).items() if k.startswith("jaxley")})
    for can, oc in zip(CANARIES_T + CANARIES_S, outs[len(chunks):] + outs_s[1:]):
        ref = oc[0] == "ok" and not oc[1]["error"] and any(r["status"] != "proved" for r in oc[1]["results"])
        ck.canary(f"{can[0]}: {can[2][:50]!r} -> {can[3][:50]!r}", ref, oc)
    for f in ("jaxley.integrate.integrate", "jaxley.integrate.add_stimuli", "jaxley.integrate.add_clamps", "jaxley.integrate.build_init_and_step_fn",
              "jaxley.utils.jax_utils.nested_checkpoint_scan", "jaxley.modules.base.Module.step", "jaxley.modules.base.Module.get_all_states",
              "jaxley.stimulus.step_current", "jaxley.stimulus.datapoint_to_step_currents"):
        ck.add_function(f, "body discharged" if not ck.violations else "body NOT discharged")
    for f in ("jaxley.modules.base.Module.record", "jaxley.modules.base.Module._external_input", "jaxley.modules.base.Module._data_external_input"):
        ck.add_function(f, "bounded")
    ck.extra["scenarios"] = {"count": n, "rule": "record orders with duplicates x static/data stimuli (single, several, shared compartment) x static/data clamps x sample counts x t_max padding/truncation"}
    ck.trusted = ["Module.step / get_all_parameters / get_all_states as uninterpreted functions in the time-axis part (their bodies: C01, C09, C10)", "lax.scan modelled as a sequential loop, jax.checkpoint as identity",
                  "the real record/stimulate/clamp/data_* bookkeeping runs natively on a small cell (simple views; general views are C11)"]
    ck.assumptions += ["number of steps for a given t_max is the code's convention floor(t_max/dt)+1 (the property does not fix it)",
                       "time-axis statements hold for EVERY step function, model and input value; the discrete configurations (which calls, how many samples, t_max, dt) are enumerated"]
    return ck.finish()


def replay_record_synapse():
    """F5 natively: with edges [Iono, Test, Iono, Iono] the recording requested for the LAST ionotropic synapse must report that synapse"""
    import jax
    jax.config.update("jax_enable_x64", True)
    import jax.numpy as jnp
    import jaxley as jx
    from jaxley.connect import connect
    from jaxley.synapses import IonotropicSynapse, TestSynapse
    try:
        net = jx.Network([jx.Cell() for _ in range(4)])
        connect(net.cell(0), net.cell(1), IonotropicSynapse())
        connect(net.cell(1), net.cell(2), TestSynapse())
        connect(net.cell(2), net.cell(3), IonotropicSynapse())
        connect(net.cell(3), net.cell(0), IonotropicSynapse())
        vals = [0.11, 0.22, 0.33]
        for k, v in enumerate(vals):
            net.IonotropicSynapse.edge(k).set("IonotropicSynapse_s", v)
        got = []
        for k in range(3):
            net.delete_recordings()
            net.IonotropicSynapse.edge(k).record("IonotropicSynapse_s", verbose=False)
            r = jx.integrate(net, delta_t=0.025, t_max=0.025)
            got.append(float(r[0, 0]))
        bad = [k for k in range(3) if abs(got[k] - vals[k]) > 1e-12]
        return {"initial_values_set": vals, "initial_values_recorded": got, "reproduced": bool(bad),
                "reason": f"recording of ionotropic synapse(s) {bad} reports another synapse's state" if bad else "each recording reports its own synapse"}
    except Exception as e:
        return {"reproduced": True, "reason": f"real code raised {type(e).__name__}: {str(e)[:120]}"}


def replay(p):
    m = p.get("model") or {}
    if m.get("scenario"):
        return e4.native_replay(m["scenario"])
    return replay_record_synapse()
