"""C14 - init_states puts every mechanism at its voltage-dependent steady state.

Kernel part: for every built-in channel, `init_state` returns for each gating variable the steady state of that
variable's own gate (contract), `update_states` applies the closed-form update of that same gate (contract, body
discharged here again), and the fixed-point lemma closes the round trip from the two contracts alone:
    closed_form(x_inf, dt, gate) == x_inf      for all dt > 0.
"""
from __future__ import annotations

import z3

from .. import discharge as D
from .. import kernels as K
from ..core import Check, run_units
from ..sym import E, Sym
from . import common
from .C03 import collect, run_all

PID = "C14"
CANARIES = [
    ("jaxley.channels.hh:HH.init_state", ("jaxley.channels.hh:HH.init_state", "src", "alpha_h / (alpha_h + beta_h)", "beta_h / (alpha_h + beta_h)")),
    ("jaxley.channels.pospischil:Na.init_state", ("jaxley.channels.pospischil:Na.init_state", "src", "alpha_h, beta_h = self.h_gate(v, params[\"vt\"])", "alpha_h, beta_h = self.h_gate(v + 1.0, params[\"vt\"])")),
    ("jaxley.channels.pospischil:K.update_states", ("jaxley.channels.pospischil:K.update_states", "src", "self.n_gate(v, params[\"vt\"])", "self.n_gate(v, params[\"vt\"] + 1.0)")),
]


def lemma_worker(arg):
    """fixed-point lemma per (channel, state), from the contract terms only"""
    name, tier = arg
    spec = K.CHANNELS[name]
    out = {"target": f"lemma:{name}", "results": [], "error": "", "error_kind": "", "reached": {}, "api_calls": {}}
    st, pa = K.channel_inputs(name)
    v, dt = Sym.var("v"), Sym.var("dt")
    for s, g, extra in spec["gates"]:
        kind, (p, q) = K.gate_terms(name, g, v, pa)
        gate_facts = [p.e > 0, q.e > 0] if kind == "ab" else [p.e > 0, p.e < 1, q.e > 0]   # the gate contract's ensures
        x0 = K.gate_steady(name, g, v, pa)
        x1 = K.gate_closed(name, g, x0, dt.e, v, pa)
        r = D.prove(f"lemma:{name}_{s}:update(init)==init for all dt>0", gate_facts + [dt.e > 0], x1 == x0, timeout_ms=common.budget(tier))
        out["results"].append(r.to_json())
    return out


def replay_fixed_point(target, r):
    """native: init = init_state(v); new = update_states(init, dt, v); the property demands new == init"""
    import importlib
    from fractions import Fraction
    import jax
    jax.config.update("jax_enable_x64", True)
    name = target.split(":")[1].split(".")[0]
    spec = K.CHANNELS[name]
    inst = getattr(importlib.import_module(spec["mod"]), name)()
    model = {}
    for k, v in r.get("model", {}).items():
        try:
            model[k] = float(Fraction(v))
        except Exception:
            pass
    params = {k: float(model.get(k.split("_", 1)[1] if k.startswith(name + "_") else k, val)) for k, val in inst.channel_params.items()}
    v = float(model.get("v", -30.0))
    info = {"target": target, "v": v, "params": params, "worst": None}
    worst = 0.0
    for dt in (float(model.get("dt", 0.025)) or 0.025, 0.025, 1.0, 100.0):
        states = {k: 0.5 for k in inst.channel_states}
        init = inst.init_state(states, v, params, dt)
        new = inst.update_states({**states, **init}, dt, v, params)
        for k in init:
            d = abs(float(new[k]) - float(init[k]))
            if d > worst:
                worst = d
                info["worst"] = {"state": k, "dt": dt, "init": float(init[k]), "after_one_update": float(new[k])}
    info.update(reproduced=bool(worst > 1e-9), reason=f"max |update(init) - init| = {worst:.3e} over dt in (model dt, 0.025, 1, 100)")
    return info


def replay(p):
    return replay_fixed_point(p["target"], {"model": p.get("model", {})})


def table_worker(arg):
    """Module.init_states on symbolic tables: only rows containing the channel are written, each with the steady state for
    ITS OWN voltage and parameters; nothing else changes."""
    tier, canary = arg
    undo = common.apply_canary(*canary) if canary else None
    try:
        return _table_worker(tier)
    finally:
        if undo:
            undo()


def _table_worker(tier):
    import traceback
    import numpy as np
    import pandas as pd
    import jax
    jax.config.update("jax_enable_x64", True)
    import jaxley as jx
    import jaxley.channels as CH
    from ..modsym import SymModule
    from ..sym import Ctx, Proxy, Runtime
    out = {"results": [], "error": "", "reached": {}}
    res = lambda name, ok, detail="": out["results"].append({"name": name, "status": "proved" if ok else "refuted", "backend": "structural", "time_s": 0.0, "model": {}, "detail": detail[:500]})
    try:
        comp = jx.Compartment()
        configs = []
        cell = jx.Cell([jx.Branch(comp, ncomp=n) for n in (2, 1, 2)], parents=[-1, 0, 0])
        cell.branch(0).insert(CH.HH())
        cell.branch(2).comp(0).insert(CH.HH())
        cell.branch(1).insert(CH.Na())
        cell.branch([1, 2]).insert(CH.K())
        cell.branch(2).comp(1).insert(CH.CaT())
        cell.branch(0).comp(1).insert(CH.Km())
        configs.append(("partial insertions, several channels per compartment, shared vt", cell))
        cell2 = jx.Cell([jx.Branch(comp, ncomp=2)], parents=[-1])
        cell2.comp(1).insert(CH.K())                      # a partial channel first ...
        cell2.insert(CH.HH().change_name("HHx"))          # ... then a renamed channel everywhere
        cell2.comp(0).insert(CH.CaL())
        configs.append(("partial channel inserted before a full (renamed) one", cell2))
        # histories: the array copies of the tables (.jaxnodes) already exist from an earlier to_jax() / integrate() and the
        # tables were changed afterwards - here: every value replaced by a symbol.  init_states must read the CURRENT tables
        # (seeded change C14_f: a stale snapshot is reused when the shape of .nodes is unchanged)
        import copy as _copy
        for cname, mod in list(configs):
            m2 = _copy.deepcopy(mod)
            m2.to_jax()
            configs.append((cname + "; .jaxnodes exist from an earlier to_jax(), tables changed since", m2))
        for cname, mod in configs:
            Ctx.reset()
            sm = SymModule(mod)
            if getattr(mod, "jaxnodes", None) is not None:
                # the stale array copies hold their own symbols (stale!key[i]): if init_states reads them instead of the current
                # tables, the gates it writes mention a stale symbol and the steady-state obligation below fails
                from ..sym import Sym as _Sym, SymArray as _SA
                stale = {}
                for k_, a_ in mod.jaxnodes.items():
                    a_ = np.asarray(a_)
                    stale[k_] = _SA(np.asarray([_Sym(z3.Real(f"stale!{k_}[{i}]")) for i in range(a_.shape[0])], dtype=object)) if a_.dtype.kind == "f" and a_.ndim == 1 else a_
                object.__getattribute__(sm.px, "_extra")["jaxnodes"] = stale
            before = sm.nodes.copy()
            w0 = len(sm.px._writes)
            from ..sym import IndexOutOfBounds
            try:
                sm.px.init_states(delta_t=0.025)
            except IndexOutOfBounds as e:
                res(f"Module.init_states[{cname}]:every gather / scatter index is in range (JAX would clamp or drop silently)", False, str(e))
                continue
            out["reached"].update(sm.rt.reached)
            after = sm.nodes
            rt = Runtime()
            expected_written = set()
            ok_vals, ok_rows = True, True
            detail = ""
            for ch in mod.channels:
                name = ch._name
                pch = Proxy(ch, rt)
                for r in after.index:
                    has = bool(mod.nodes.loc[r, name])
                    if not has:
                        continue
                    v = before.loc[r, "v"]
                    params = {k: before.loc[r, k] for k in ch.channel_params}
                    states = {k: before.loc[r, k] for k in ch.channel_states}
                    want = pch.init_state(states, v, params, 0.025)
                    for key, val in want.items():
                        expected_written.add((r, key))
                        got = after.loc[r, key]
                        if not (hasattr(got, "e") and z3.simplify(got.e - val.e).eq(z3.RealVal(0))):
                            ok_vals = False
                            detail = detail or f"{cname}: {key}[{r}] = {str(getattr(got, 'e', got))[:120]} is not the steady state at v[{r}] with the parameters of row {r}"
            # frame: every other cell unchanged
            for c in after.columns:
                for r in after.index:
                    if (r, c) in expected_written:
                        continue
                    a, b = after.loc[r, c], before.loc[r, c]
                    same = (a is b) or (hasattr(a, "e") and hasattr(b, "e") and a.e.eq(b.e)) or (not hasattr(a, "e") and not hasattr(b, "e") and ((a == b) or (pd.isna(a) and pd.isna(b))))
                    if not same:
                        ok_rows = False
                        detail = detail or f"{cname}: cell {c}[{r}] changed although row {r} does not contain the channel"
            res(f"Module.init_states[{cname}]:every gate of every inserted channel is the steady state for the row's own voltage and parameters", ok_vals, detail)
            res(f"Module.init_states[{cname}]:only the compartments that contain the channel are written, nothing else changes", ok_rows, detail)
            writes = set(sm.px._writes[w0:]) - {"jaxnodes", "jaxedges"}
            res(f"Module.init_states[{cname}]:writes no module attribute besides the table cells (frame log)", not writes, str(writes))
    except Exception as e:
        out["error"] = f"{type(e).__name__}: {e}\n{traceback.format_exc(limit=8)}"
    return out


TABLE_CANARIES = [
    ("jaxley.modules.base:Module.init_states", "src", "voltages = channel_nodes.loc[channel_indices, \"v\"].to_numpy()", "voltages = channel_nodes[\"v\"].to_numpy()[: len(channel_indices)]"),
]


def main(tier):
    ck = Check(PID, tier)
    ts = K.INIT_TARGETS + K.UPDATE_TARGETS + K.INIT_TARGETS_RENAMED + K.UPDATE_TARGETS_RENAMED
    only = ["steady state of its own gate", "closed-form update of its own gate", "returns exactly", "in [0,1]"]
    run_all(ck, tier, ts, CANARIES, only=only, replay=lambda t, r: (replay_fixed_point(t, r), {"kind": "c14", "replay_module": "jxverif.props.C14", "target": t}))
    outs = run_units("jxverif.props.C14", "lemma_worker", [(n, tier) for n in K.CHANNELS if K.CHANNELS[n]["gates"]], nproc=1)
    for o in outs:
        if o[0] != "ok":
            ck.error(o[1])
            continue
        for r in o[1]["results"]:
            ck.add(r)
            if r["status"] == "refuted":
                ck.violation(r["name"], {"solver_output": r["detail"], "model": r["model"], "kind": "lemma"}, reproduced=False)
        ck.add_function(o[1]["target"], "body discharged", len(o[1]["results"]))
    outs_t = run_units("jxverif.props.C14", "table_worker", [(tier, None)] + [("quick", c) for c in TABLE_CANARIES])
    o = outs_t[0]
    if o[0] != "ok" or o[1]["error"]:
        ck.error(str(o[1] if o[0] != "ok" else o[1]["error"])[:900])
    else:
        for r in o[1]["results"]:
            ck.add(r)
            if r["status"] == "refuted":
                ck.violation(r["name"], {"solver": r["backend"], "solver_output": r["detail"], "kind": "c14-table"}, reproduced=False)
        ck.add_function("jaxley.modules.base:Module.init_states", "body discharged" if all(r["status"] == "proved" for r in o[1]["results"]) else "body NOT discharged", len(o[1]["results"]))
        ck.extra.setdefault("code_reached", {}).update({k: v for k, v in o[1]["reached"].items() if k.startswith("jaxley")})
    for can, oc in zip(TABLE_CANARIES, outs_t[1:]):
        ref = oc[0] == "ok" and not oc[1]["error"] and any(r["status"] != "proved" for r in oc[1]["results"])
        ck.canary(f"{can[0]}: {can[2][:50]!r} -> {can[3][:50]!r}", ref, oc)
    ck.trusted = ["gate contracts (alpha>0, beta>0 / x_inf in (0,1), tau>0) discharged under C03", "jax.numpy primitive models", "z3 + exp axioms"]
    ck.assumptions += ["domain: v in [-120,60] mV, dt in (0,1000], parameter ranges as in C03",
                       "table-level part: the real Module.init_states runs on symbolic tables of two cells with partial insertions, several channels per compartment, a renamed channel and shared parameters (structures enumerated, values symbolic)"]
    return ck.finish()
