"""C14 - init_states puts every mechanism at its voltage-dependent steady state.

Kernel part: for every built-in channel, `init_state` returns for each gating variable the steady state of that
variable's own gate (contract), `update_states` applies the closed-form update of that same gate (contract, body
discharged here again), and the fixed-point lemma closes the round trip from the two contracts alone:
    closed_form(x_inf, dt, gate) == x_inf      for all dt > 0.
"""
from __future__ import annotations

import z3

from .. import discharge as D
from .. import kernels as K
from ..core import Check, run_units
from ..sym import E, Sym
from . import common
from .C03 import collect, run_all

PID = "C14"
CANARIES = [
    ("jaxley.channels.hh:HH.init_state", ("jaxley.channels.hh:HH.init_state", "src", "alpha_h / (alpha_h + beta_h)", "beta_h / (alpha_h + beta_h)")),
    ("jaxley.channels.pospischil:Na.init_state", ("jaxley.channels.pospischil:Na.init_state", "src", "alpha_h, beta_h = self.h_gate(v, params[\"vt\"])", "alpha_h, beta_h = self.h_gate(v + 1.0, params[\"vt\"])")),
    ("jaxley.channels.pospischil:K.update_states", ("jaxley.channels.pospischil:K.update_states", "src", "self.n_gate(v, params[\"vt\"])", "self.n_gate(v, params[\"vt\"] + 1.0)")),
]


def lemma_worker(arg):
    """fixed-point lemma per (channel, state), from the contract terms only"""
    name, tier = arg
    spec = K.CHANNELS[name]
    out = {"target": f"lemma:{name}", "results": [], "error": "", "error_kind": "", "reached": {}, "api_calls": {}}
    st, pa = K.channel_inputs(name)
    v, dt = Sym.var("v"), Sym.var("dt")
    for s, g, extra in spec["gates"]:
        kind, (p, q) = K.gate_terms(name, g, v, pa)
        gate_facts = [p.e > 0, q.e > 0] if kind == "ab" else [p.e > 0, p.e < 1, q.e > 0]   # the gate contract's ensures
        x0 = K.gate_steady(name, g, v, pa)
        x1 = K.gate_closed(name, g, x0, dt.e, v, pa)
        r = D.prove(f"lemma:{name}_{s}:update(init)==init for all dt>0", gate_facts + [dt.e > 0], x1 == x0, timeout_ms=common.budget(tier))
        out["results"].append(r.to_json())
    return out


def replay_fixed_point(target, r):
    """native: init = init_state(v); new = update_states(init, dt, v); the property demands new == init"""
    import importlib
    from fractions import Fraction
    import jax
    jax.config.update("jax_enable_x64", True)
    name = target.split(":")[1].split(".")[0]
    spec = K.CHANNELS[name]
    inst = getattr(importlib.import_module(spec["mod"]), name)()
    model = {}
    for k, v in r.get("model", {}).items():
        try:
            model[k] = float(Fraction(v))
        except Exception:
            pass
    params = {k: float(model.get(k.split("_", 1)[1] if k.startswith(name + "_") else k, val)) for k, val in inst.channel_params.items()}
    v = float(model.get("v", -30.0))
    info = {"target": target, "v": v, "params": params, "worst": None}
    worst = 0.0
    for dt in (float(model.get("dt", 0.025)) or 0.025, 0.025, 1.0, 100.0):
        states = {k: 0.5 for k in inst.channel_states}
        init = inst.init_state(states, v, params, dt)
        new = inst.update_states({**states, **init}, dt, v, params)
        for k in init:
            d = abs(float(new[k]) - float(init[k]))
            if d > worst:
                worst = d
                info["worst"] = {"state": k, "dt": dt, "init": float(init[k]), "after_one_update": float(new[k])}
    info.update(reproduced=bool(worst > 1e-9), reason=f"max |update(init) - init| = {worst:.3e} over dt in (model dt, 0.025, 1, 100)")
    return info


def replay(p):
    return replay_fixed_point(p["target"], {"model": p.get("model", {})})


def main(tier):
    ck = Check(PID, tier)
    ts = K.INIT_TARGETS + K.UPDATE_TARGETS
    only = ["steady state of its own gate", "closed-form update of its own gate", "returns exactly", "in [0,1]"]
    run_all(ck, tier, ts, CANARIES, only=only, replay=lambda t, r: (replay_fixed_point(t, r), {"kind": "c14", "replay_module": "jxverif.props.C14", "target": t}))
    outs = run_units("jxverif.props.C14", "lemma_worker", [(n, tier) for n in K.CHANNELS if K.CHANNELS[n]["gates"]], nproc=1)
    for o in outs:
        if o[0] != "ok":
            ck.error(o[1])
            continue
        for r in o[1]["results"]:
            ck.add(r)
            if r["status"] == "refuted":
                ck.violation(r["name"], {"solver_output": r["detail"], "model": r["model"], "kind": "lemma"}, reproduced=False)
        ck.add_function(o[1]["target"], "body discharged", len(o[1]["results"]))
    ck.trusted = ["gate contracts (alpha>0, beta>0 / x_inf in (0,1), tau>0) discharged under C03", "jax.numpy primitive models", "z3 + exp axioms"]
    ck.assumptions += ["domain: v in [-120,60] mV, dt in (0,1000], parameter ranges as in C03",
                       "table-level part of C14 (only rows containing the channel are written, each with its own voltage/parameters) is decided in the module-level part of this check when present"]
    return ck.finish()
