"""C12 - assembly preserves constituents; uncoupled parts simulate independently.

Tier B (bounded contract evaluation, native): tables of Branch([...]), Cell([...]), Network([...]) against their constituents.
Tier P (all values, per assembled structure): with symbolic tables, the real to_jax/get_all_parameters/get_all_states/step
chain of the assembled module yields for every constituent's compartments exactly the membrane terms, mechanism updates and
axial conductances of the constituent simulated alone (symbols renamed by the row offset).  Equality of the voltage
solutions then follows from C01 (every backend solves the assembled system exactly; block-diagonal systems decouple).
"""
from __future__ import annotations

import traceback

import numpy as np
import pandas as pd
import z3

from ..core import Check, run_units
from .C08 import _res

PID = "C12"
CONTENT_SKIP = ("global_comp_index", "global_branch_index", "global_cell_index", "local_comp_index", "local_branch_index", "local_cell_index", "controlled_by_param")


def family():
    import jax
    jax.config.update("jax_enable_x64", True)
    import jaxley as jx
    from jaxley.channels import HH, K, Km, Leak, Na
    c1 = jx.Compartment()
    c1.insert(HH())
    c1.set("radius", 2.0)
    c2 = jx.Compartment()
    c2.insert(Leak())
    c2.set("length", 20.0)
    c2.set("v", -60.0)
    c3 = jx.Compartment()
    c3.insert(K())
    c3.set("vt", -55.0)
    c4 = jx.Compartment()
    c4.insert(Na())
    c4.insert(K())              # shares vt
    c4.set("capacitance", 2.0)
    c5 = jx.Compartment()       # no channel at all
    c6 = jx.Compartment()       # two different channels that share a current name (i_K) - and a parameter (vt) with c4's
    c6.insert(K())
    c6.insert(Km())
    b1 = jx.Branch([c1, c2])
    b2 = jx.Branch(c3, ncomp=2)
    b3 = jx.Branch([c2, c4, c5])
    b4 = jx.Branch([c5])
    b5 = jx.Branch([c6, c1])
    cellA = jx.Cell([b1, b2], parents=[-1, 0])
    cellB = jx.Cell([b3], parents=[-1])
    cellC = jx.Cell([b2, b1, b4], parents=[-1, 0, 0])
    cellD = jx.Cell([b4], parents=[-1])
    cellE = jx.Cell([b5, b2], parents=[-1, 0])
    F = {
        "branches": [("Branch[c1,c2]", b1, [c1, c2]), ("Branch[c3]x2", b2, [c3, c3]), ("Branch[c2,c4,c5]", b3, [c2, c4, c5]), ("Branch[c5]", b4, [c5]), ("Branch[c6,c1]", b5, [c6, c1])],
        "cells": [("Cell[b1,b2]", cellA, [b1, b2]), ("Cell[b3]", cellB, [b3]), ("Cell[b2,b1,b4]", cellC, [b2, b1, b4]), ("Cell[b4]", cellD, [b4]), ("Cell[b5,b2]", cellE, [b5, b2])],
    }
    F["nets"] = [("Net[A,B]", jx.Network([cellA, cellB]), [cellA, cellB]), ("Net[B,A]", jx.Network([cellB, cellA]), [cellB, cellA]),
                 ("Net[A,C,D]", jx.Network([cellA, cellC, cellD]), [cellA, cellC, cellD]), ("Net[D,D]", jx.Network([cellD, cellD]), [cellD, cellD]),
                 ("Net[C,B]", jx.Network([cellC, cellB]), [cellC, cellB]), ("Net[E,B]", jx.Network([cellE, cellB]), [cellE, cellB])]
    F["single"] = [("Cell[b1] vs Branch b1", jx.Cell([b1], parents=[-1]), b1), ("Cell[b3] vs Branch b3", cellB, b3), ("Branch[c1] vs Compartment c1", jx.Branch([c1]), c1),
                   ("Branch[c4] vs Compartment c4", jx.Branch([c4]), c4), ("Branch[c6] vs Compartment c6", jx.Branch([c6]), c6),
                   ("Cell[b5] vs Branch b5", jx.Cell([b5], parents=[-1]), b5)]
    return F


def table_contract(name, M, parts):
    """postcondition of assembly on the tables: rows = constituents' rows; absent channels stay absent; contiguous indices"""
    bad = []
    nodes = M.nodes
    if list(nodes["global_comp_index"]) != list(range(len(nodes))) or list(nodes.index) != list(range(len(nodes))):
        bad.append("global_comp_index / index not contiguous")
    off = 0
    all_channel_names = [c._name for c in M.channels]
    for k, X in enumerate(parts):
        xn = X.nodes
        rows = nodes.iloc[off:off + len(xn)]
        for col in xn.columns:
            if col in CONTENT_SKIP:
                continue
            a, b = rows[col].to_numpy(), xn[col].to_numpy()
            same = all((x == y) or (pd.isna(x) and pd.isna(y)) for x, y in zip(a, b))
            if not same:
                bad.append(f"constituent {k} column {col}: {list(a)} != {list(b)}")
        x_channels = [c._name for c in X.channels] if hasattr(X, "channels") else []
        for ch in M.channels:
            if ch._name in x_channels:
                continue
            if rows[ch._name].astype(bool).any():
                bad.append(f"constituent {k}: absent channel {ch._name} flagged present")
            for key in list(ch.channel_states) + [p for p in ch.channel_params]:
                shared = any(key in list(c2.channel_params) + list(c2.channel_states) for c2 in X.channels) if hasattr(X, "channels") else False
                if key in rows.columns and not shared and not rows[key].isna().all():
                    bad.append(f"constituent {k}: column {key} of absent channel {ch._name} is not NaN")
        # each constituent keeps one contiguous index range at its level
        off += len(xn)
    if off != len(nodes):
        bad.append("row count differs from the sum of the constituents")
    # the assembled module KNOWS every constituent's mechanisms (they are what gets stepped): channel names and current names
    want_ch = sorted({c._name for X in parts if hasattr(X, "channels") for c in X.channels})
    if sorted(all_channel_names) != want_ch:
        bad.append(f"channels of the assembled module {sorted(all_channel_names)} != union of the constituents' channels {want_ch}")
    want_cur = sorted({c.current_name for X in parts if hasattr(X, "channels") for c in X.channels})
    if sorted(M.membrane_current_names) != want_cur:
        bad.append(f"membrane current names {sorted(M.membrane_current_names)} != union of the constituents' {want_cur}")
    return bad


def _rename(term, offset, edge_offset=0):
    """col[row] -> col[row+offset] in a z3 term"""
    import re
    from ..modsym import free_vars
    sub = []
    for v in free_vars(term):
        m = re.fullmatch(r"(.+)\[(\d+)\]", v)
        if m:
            sub.append((z3.Real(v), z3.Real(f"{m.group(1)}[{int(m.group(2)) + offset}]")))
    return z3.substitute(term, *sub) if sub else term


_NO_SOLVER = [False]
_SOLVER_BUDGET = [20]


def _same(a, b):
    """equality of two real terms for all values: structural, by normalisation, or by the solver"""
    if a.eq(b):
        return True
    if z3.simplify(a - b).eq(z3.RealVal(0)):
        return True
    from ..sym import ac_key
    if ac_key(z3.simplify(a)) == ac_key(z3.simplify(b)):
        return True
    if _NO_SOLVER[0] or _SOLVER_BUDGET[0] <= 0:
        return False
    _SOLVER_BUDGET[0] -= 1
    from .. import discharge as D
    return D.prove("term equality", [], a == b, timeout_ms=5000, use_cvc5=False, rounds=0).status == "proved"


def worker(arg):
    tier, canary = arg
    from . import common
    undo = common.apply_canary(*canary) if canary else None
    _NO_SOLVER[0] = canary is not None
    try:
        return _worker(tier)
    finally:
        if undo:
            undo()


def _sym_terms(mod):
    """run the real chain on symbolic tables; -> dict with per-compartment membrane terms, new mechanism states, edge conductances"""
    from ..modsym import SymModule, mentions_poison
    from ..sym import Ctx, Sym
    Ctx.reset()
    sm = SymModule(mod)
    sm.prepare()
    new = sm.step()
    kind, kw, H = sm.solver_calls[-1]
    N = len(mod.nodes)
    ce = mod._comp_edges
    out = {"N": N, "vt": [Sym.lift(kw["voltage_terms"][i]) for i in range(N)], "ct": [Sym.lift(kw["constant_terms"][i]) for i in range(N)],
           "states": {k: v for k, v in new.items() if k != "v"}, "g": kw["axial_conductances"],
           "edges": list(zip(map(int, ce["sink"].to_list()), map(int, ce["source"].to_list()), map(int, ce["type"].to_list()))) if len(ce) else [],
           "reached": dict(sm.rt.reached), "poison": mentions_poison}
    return out


def _worker(tier):
    out = {"results": [], "error": "", "reached": {}, "evals": 0, "distinct": 0, "bounded_bad": []}
    try:
        F = family()
        # ---- Tier B: table contracts
        for group in ("branches", "cells", "nets"):
            for name, M, parts in F[group]:
                bad = table_contract(name, M, parts)
                out["evals"] += 1
                out["distinct"] += 1
                if bad:
                    out["bounded_bad"].append((name, bad[:3]))
        if _NO_SOLVER[0] and out["bounded_bad"]:
            return out           # canary already refuted
        # ---- Tier P: uncoupled parts simulate independently
        alone = {}
        for name, M, parts in F["nets"]:
            T = _sym_terms(M)
            out["reached"].update(T["reached"])
            off = 0
            boff = 0
            for k, X in enumerate(parts):
                key = id(X)
                if key not in alone:
                    alone[key] = _sym_terms(X)
                A = alone[key]
                n = A["N"]
                ok_terms, ok_pois = True, True
                for i in range(n):
                    if not ok_terms:
                        break
                    ok_terms = ok_terms and _same(T["vt"][off + i].e, _rename(A["vt"][i].e, off)) and _same(T["ct"][off + i].e, _rename(A["ct"][i].e, off))
                    ok_pois = ok_pois and not T["poison"](T["vt"][off + i]) and not T["poison"](T["ct"][off + i])
                out["results"].append(_res(f"{name}:membrane terms of cell {k} equal those of the cell simulated alone (rows renamed by +{off})", ok_terms, backend="structural"))
                out["results"].append(_res(f"{name}:membrane terms of cell {k} do not depend on an absent (NaN) parameter", ok_pois, backend="structural"))
                ok_states = True
                for sname, arr in A["states"].items():
                    if sname not in T["states"]:
                        ok_states = False
                        continue
                    for i in range(n):
                        a, b = arr[i], T["states"][sname][off + i]
                        if A["poison"](a):
                            continue            # the cell does not have this mechanism on that compartment
                        ok_states = ok_states and _same(b.e, _rename(a.e, off))
                out["results"].append(_res(f"{name}:mechanism updates of cell {k} equal those of the cell simulated alone", ok_states, backend="structural"))
                # axial conductances: same multiset of (sink, source, type, term) after index translation
                nb_total = T["N"]
                nbp_A = len(set(s for (snk, s, t) in A["edges"] if t in (1, 2)))
                def tr(node):
                    return node + off if node < n else nb_total + boff + (node - n)
                want = sorted((tr(snk), tr(src), t, str(z3.simplify(_rename(A["g"][j].e, off)))) for j, (snk, src, t) in enumerate(A["edges"]))
                got = sorted((snk, src, t, str(z3.simplify(T["g"][j].e))) for j, (snk, src, t) in enumerate(T["edges"])
                             if (off <= snk < off + n) or (off <= src < off + n))
                out["results"].append(_res(f"{name}:axial edges and conductances of cell {k} equal those of the cell alone (indices translated)", want == got,
                                           "" if want == got else f"want {want[:2]} got {got[:2]}", backend="structural"))
                off += n
                boff += nbp_A
                if _NO_SOLVER[0] and any(r["status"] == "refuted" for r in out["results"]):
                    return out       # canary already refuted
        for name, M, X in F["single"]:
            TM, TX = _sym_terms(M), _sym_terms(X)
            ok = TM["N"] == TX["N"] and all(_same(TM["vt"][i].e, TX["vt"][i].e) and _same(TM["ct"][i].e, TX["ct"][i].e) for i in range(TM["N"]))
            ok = ok and all(_same(TM["states"][s][i].e, TX["states"][s][i].e) for s in TX["states"] for i in range(TX["N"]) if not TX["poison"](TX["states"][s][i]))
            ok_e = sorted((a, b, c, str(z3.simplify(TM["g"][j].e))) for j, (a, b, c) in enumerate(TM["edges"])) == sorted((a, b, c, str(z3.simplify(TX["g"][j].e))) for j, (a, b, c) in enumerate(TX["edges"]))
            out["results"].append(_res(f"{name}:identical membrane terms, mechanism updates and axial conductances", ok and ok_e, backend="structural"))
    except Exception as e:
        out["error"] = f"{type(e).__name__}: {e}\n{traceback.format_exc(limit=8)}"
    return out


CANARIES = [
    ("jaxley.modules.base:Module._gather_channels_from_constituents", "src", "self.base.nodes.loc[self.nodes[name].isna(), name] = False", "self.base.nodes.loc[self.nodes[name].isna(), name] = True"),
    ("jaxley.modules.base:Module._channel_currents", "src", "channel_params[\"radius\"] = params[\"radius\"][indices]", "channel_params[\"radius\"] = params[\"radius\"][indices]; indices = indices[::-1]"),
]


HETERO_NETS = [
    [([-1], [2]), ([-1, 0, 0], [2, 2, 2])],
    [([-1, 0, 0, 1], [2, 2, 2, 2]), ([-1, 0], [2, 2])],
    [([-1, 0, 0], [1, 1, 1]), ([-1], [1]), ([-1, 0, 1], [1, 1, 1])],
    [([-1, 0], [2, 2]), ([-1, 0, 0, 1], [2, 2, 2, 2])],
    # cells that pad a level (unequal compartment counts among the branches of one level) and are NOT listed last: the padded
    # slots of a cell shift every later cell (seeded change C12_e); per-level maxima agree, so the custom back ends accept them
    [([-1, 0, 0], [2, 1, 3]), ([-1, 0, 0], [2, 3, 1])], [([-1, 0, 0], [1, 2, 1]), ([-1, 0], [1, 2]), ([-1, 0, 0], [1, 1, 2])],
    # sibling permutations with unequal compartment counts (the padded layout of a level must not depend on the order)
    [([-1, 0, 0], [2, 3, 1])], [([-1, 0, 0], [2, 1, 3])], [([-1, 0, 0, 0], [1, 3, 2, 1])], [([-1, 0, 0, 1, 1], [2, 1, 2, 3, 1])],
]


def main(tier):
    ck = Check(PID, tier)
    outs = run_units("jxverif.props.C12", "worker", [(tier, None)] + [("quick", c) for c in CANARIES])
    # the solver side of "a network simulates each cell as the cell alone": C01's chain on networks whose cells differ in
    # depth / size (block-diagonal specification system = the cells' systems); exercised here so that C12 stands alone
    from . import C01
    outs_n = run_units("jxverif.props.C01", "structure_worker", [(c, tier, ["jaxley.thomas", "jax.sparse"]) for c in HETERO_NETS])
    for o in outs_n:
        if o[0] != "ok" or o[1]["error"]:
            ck.error(str(o[1] if o[0] != "ok" else o[1]["error"])[:600])
            continue
        for r in o[1]["refused"]:
            ck.refused.append(f"{o[1]['tag']}: {r}")
        bad = [r for r in o[1]["results"] if r["status"] == "refuted"]
        for r in o[1]["results"]:
            ck.add(r)
        if bad:
            try:
                rp = C01.native_compare(o[1]["cells"])
            except Exception as e:
                rp = {"reproduced": False, "reason": str(e)[:100]}
            for r in bad[:3]:
                ck.violation(r["name"], {"solver": r["backend"], "solver_output": r["detail"], "model": r["model"], "cells": o[1]["cells"], "kind": "c01",
                                         "replay_module": "jxverif.props.C01", "replay": rp}, reproduced=rp.get("reproduced", False))
    o = outs[0]
    if o[0] != "ok" or o[1]["error"]:
        ck.error(str(o[1] if o[0] != "ok" else o[1]["error"])[:900])
    else:
        o = o[1]
        for r in o["results"]:
            ck.add(r)
            if r["status"] == "refuted":
                ck.violation(r["name"], {"solver": r["backend"], "solver_output": r["detail"], "kind": "c12"}, reproduced=False)
        ck.bounded = {"evaluations": o["evals"], "distinct_nontrivial": o["distinct"], "exhaustive": True,
                      "rule": "table contract of Branch/Cell/Network assembly on a family of 4 branches, 4 cells, 5 networks built from 5 heterogeneous compartments (HH, Leak, K, Na+K sharing vt, none); every assembled module is a distinct case",
                      "failures": o["bounded_bad"]}
        for name, bad in o["bounded_bad"]:
            ck.add(_res(f"assembly table contract (bounded):{name}", False, str(bad), backend="bounded-evaluation"))
            ck.violation(f"assembly table contract (bounded):{name}", {"solver_output": str(bad), "kind": "c12-bounded"}, reproduced=True)
        ck.extra["code_reached"] = {k: v for k, v in o["reached"].items() if k.startswith("jaxley")}
    for can, oc in zip(CANARIES, outs[1:]):
        ref = oc[0] == "ok" and not oc[1]["error"] and (bool(oc[1]["bounded_bad"]) or any(r["status"] != "proved" for r in oc[1]["results"]))
        ck.canary(f"{can[0]}: {can[2][:40]!r} -> ...", ref, oc)
    for f in ("jaxley.modules.base.Module.to_jax", "jaxley.modules.base.Module.get_all_parameters", "jaxley.modules.base.Module.get_all_states", "jaxley.modules.base.Module.step",
              "jaxley.modules.base.Module._step_channels_state", "jaxley.modules.base.Module._channel_currents", "jaxley.utils.cell_utils.compute_axial_conductances"):
        ck.add_function(f, "body discharged" if not ck.violations else "body NOT discharged")
    for f in ("jaxley.modules.branch.Branch.__init__", "jaxley.modules.cell.Cell.__init__", "jaxley.modules.network.Network.__init__", "jaxley.modules.base.Module._gather_channels_from_constituents"):
        ck.add_function(f, "bounded")
    ck.trusted = ["C01: every backend returns the exact solution of the assembled (block-diagonal) system", "pandas operations on concrete tables are executed natively"]
    ck.assumptions += ["'simulates each cell exactly as the cell alone' is decided at contract level: identical membrane terms, mechanism updates and axial conductances handed to the voltage solver; equality of the solutions follows from C01 and uniqueness",
                       "backends that refuse a model (indexer assertion for cells padding a level differently) are within the property"]
    return ck.finish()
