"""C01 - every voltage step is the exact solution of the discretised cable equation."""
from __future__ import annotations

import itertools
import os
import time
import traceback

import numpy as np
import z3

from ..core import Check, run_units

PID = "C01"


# ---- E6: enumeration of static structures --------------------------------------------------------------------------
def trees(n):
    """all parent vectors with parents[0] = -1 and parents[i] < i"""
    if n == 1:
        return [[-1]]
    out = []
    for rest in itertools.product(*[range(i) for i in range(1, n)]):
        out.append([-1] + list(rest))
    return out


def structures(tier, seed=0):
    S = []
    if tier == "quick":
        for n in (1, 2, 3, 4):
            for par in trees(n):
                for nc in itertools.product((1, 2), repeat=n):
                    S.append([(par, list(nc))])
        for k in (3, 4):
            S.append([([-1], [k])])
        S += [[([-1, 0, 0], [2, 3, 3])], [([-1, 0, 0, 1, 1, 3], [3, 2, 2, 1, 1, 2])]]
        nets = [
            [([-1], [1]), ([-1], [1])],
            [([-1], [2]), ([-1, 0, 0], [2, 2, 2])],
            [([-1, 0, 0], [2, 2, 2]), ([-1, 0, 0], [2, 2, 2])],
            [([-1, 0, 0, 1], [2, 2, 2, 2]), ([-1, 0], [2, 2])],
            [([-1, 0, 1], [1, 1, 1]), ([-1], [1]), ([-1, 0, 0], [1, 1, 1])],
            [([-1, 0, 0], [2, 1, 3]), ([-1, 0], [1, 2])],
            # a cell that pads a level, followed by other cells (per-level maxima agree, so the custom back ends accept the network)
            [([-1, 0, 0], [2, 1, 3]), ([-1, 0, 0], [2, 3, 1])], [([-1, 0, 0], [1, 2, 1]), ([-1, 0], [1, 2]), ([-1, 0, 0], [1, 1, 2])],
            # unbranched cells with different numbers of compartments: refused by the custom implicit back ends, but accepted by
            # jax.sparse and by forward Euler (finding F24: the explicit step reshaped the voltages to (nbranches, -1))
            [([-1], [1]), ([-1], [3])], [([-1], [3]), ([-1], [1])], [([-1], [2]), ([-1], [1]), ([-1], [3])],
        ]
        S += nets
    else:
        # sized to finish in well under an hour on 16 cores (about 1500 structures x 3 back ends)
        for n in (1, 2, 3, 4):
            for par in trees(n):
                for nc in itertools.product((1, 2, 3), repeat=n):
                    S.append([(par, list(nc))])
        for par in trees(5):
            for nc in itertools.product((1, 2), repeat=5):
                S.append([(par, list(nc))])
        for n in (1, 2, 3):
            for par in trees(n):
                for nc in itertools.product((1, 2, 3, 4), repeat=n):
                    if 4 in nc:
                        S.append([(par, list(nc))])
        rng = np.random.default_rng(seed)
        for _ in range(60):
            n = int(rng.integers(2, 8))
            par = [-1] + [int(rng.integers(0, i)) for i in range(1, n)]
            S.append([(par, [int(x) for x in rng.integers(1, 5, size=n)])])
        cellfam = [([-1], [1]), ([-1], [3]), ([-1, 0, 0], [2, 2, 2]), ([-1, 0, 0, 1], [1, 2, 2, 1]), ([-1, 0], [2, 1]), ([-1, 0, 1, 1], [2, 2, 1, 1])]
        for k in (2, 3):
            for combo in itertools.combinations_with_replacement(range(len(cellfam)), k):
                S.append([cellfam[i] for i in combo])
    return S


def tag_of(cells):
    return "|".join("tree=" + ".".join(map(str, p)) + ";ncomp=" + ".".join(map(str, n)) for p, n in cells)


def build_module(cells):
    import jaxley as jx
    comp = jx.Compartment()
    built = []
    for par, nc in cells:
        if len(par) == 1:
            built.append(jx.Cell([jx.Branch(comp, ncomp=nc[0])], parents=[-1]))
        else:
            built.append(jx.Cell([jx.Branch(comp, ncomp=n) for n in nc], parents=par))
    if len(built) == 1:
        return built[0]
    return jx.Network(built)


def sym_params(N):
    from ..sym import Sym, SymArray
    mk = lambda nm: SymArray(np.asarray([Sym(z3.Real(f"{nm}{i}")) for i in range(N)], dtype=object))
    return {"radius": mk("r"), "length": mk("l"), "axial_resistivity": mk("ra"), "capacitance": mk("cm"), "a": mk("a"), "c": mk("c"), "v": mk("v")}


CANARIES = [
    ("jaxley.solver_voltage:_eliminate_single_child_lower", "src", "-branchpoint_weights_children / diags", "branchpoint_weights_children / diags"),
    ("jaxley.utils.cell_utils:compute_coupling_cond", "src", "/ l1 * 10**7", "/ l1 * 10**6"),
    ("jaxley.utils.cell_utils:compute_coupling_cond_branchpoint", "src", "l**2", "l"),
    ("jaxley.solver_voltage:_eliminate_children_upper", "src", "idx.first(bil)", "idx.last(bil)"),
    ("jaxley.solver_voltage:step_voltage_implicit_with_jax_spsolve", "src", "1.0 + delta_t * voltage_terms", "1.0 - delta_t * voltage_terms"),
    ("jaxley.modules.base:Module.step", "src", "half_step_delta_t = delta_t / 2", "half_step_delta_t = delta_t / 3"),
    ("jaxley.solver_voltage:_backsub_level", "src", "diags = diags.at[idx.branch(bil)].set(1.0)", "diags = diags.at[idx.branch(bil)].set(2.0)"),
]
CANARY_STRUCT = [([-1, 0, 0], [2, 2, 2])]


def structure_worker(arg):
    cells, tier, backends = arg[:3]
    canary = arg[3] if len(arg) > 3 else None
    from .. import chain as CH
    from . import common
    undo = common.apply_canary(*canary) if canary else None
    try:
        return _structure_worker(cells, tier, backends, canary is not None)
    finally:
        if undo:
            undo()


def _structure_worker(cells, tier, backends, is_canary):
    from .. import chain as CH
    from ..specs import cable
    from ..sym import Ctx, Sym
    tag = tag_of(cells)
    out = {"tag": tag, "cells": cells, "results": [], "refused": [], "error": "", "reached": {}}
    t0 = time.time()
    try:
        try:
            module = build_module(cells)
        except Exception as e:
            out["refused"].append(f"construction: {type(e).__name__}: {str(e)[:100]}")
            return out
        topo = cable.Topology(cells)
        if len(module.nodes) != topo.N:
            out["results"].append({"name": f"Module.__init__:number of compartments == sum(ncomp)[{tag}]", "status": "refuted", "backend": "structural", "time_s": 0, "model": {}, "detail": ""})
            return out
        dt = Sym(z3.Real("dt"))
        tmo = 30000 if tier == "quick" else 120000
        for be in backends:
            widest, nbr = max(max(nc) for _, nc in cells), sum(len(nc) for _, nc in cells)
            if be == "jaxley.stone" and (widest > 3 or (widest == 3 and (tier == "quick" or nbr > 1))):
                continue        # Stone's LU on wider branches exceeds the solver budget of this tier: assumed there (stated in the evidence)
            Ctx.reset()
            P = sym_params(topo.N)
            if be == "jax.sparse":
                res, info = CH.run_sparse(module, topo, P, dt, f"{be};{tag}", tmo)
            else:
                res, info = CH.run_jaxley_chain(module, topo, P, dt, be, f"{be};{tag}", tmo)
                if info.get("refused"):
                    out["refused"].append(f"{be}: {info['refused']}")
            out["results"] += res
            out["reached"].update(info.get("reached", {}))
        res, info = CH.run_step_schemes(module, topo, tag, tmo)
        out["results"] += res
        out["reached"].update(info.get("reached", {}))
        out["refused"] += info.get("refused", [])
        if not is_canary:
            out["results"] += CH.crank_nicolson_lemma(topo, tag, tmo)
    except Exception as e:
        out["error"] = f"{type(e).__name__}: {e}\n{traceback.format_exc(limit=8)}"
    out["wall"] = round(time.time() - t0, 2)
    return out


FUNCS = [
    "jaxley.solver_voltage.step_voltage_implicit_with_jaxley_spsolve", "jaxley.solver_voltage._triang_branched", "jaxley.solver_voltage._backsub_branched",
    "jaxley.solver_voltage._triang_level", "jaxley.solver_voltage._backsub_level", "jaxley.solver_voltage._eliminate_children_lower",
    "jaxley.solver_voltage._eliminate_single_child_lower", "jaxley.solver_voltage._eliminate_parents_upper", "jaxley.solver_voltage._eliminate_single_parent_upper",
    "jaxley.solver_voltage._eliminate_parents_lower", "jaxley.solver_voltage._eliminate_children_upper",
    "jaxley.solver_voltage.step_voltage_implicit_with_jax_spsolve", "jaxley.solver_voltage.step_voltage_explicit", "jaxley.solver_voltage._voltage_vectorfield",
    "jaxley.utils.cell_utils.compute_axial_conductances", "jaxley.utils.cell_utils.compute_coupling_cond", "jaxley.utils.cell_utils.compute_coupling_cond_branchpoint",
    "jaxley.utils.cell_utils.compute_impact_on_node", "jaxley.utils.cell_utils.group_and_sum", "jaxley.modules.base.Module.step",
    "tridiax.thomas.thomas_triang_upper", "tridiax.thomas.thomas_backsub_lower",
]


def main(tier):
    ck = Check(PID, tier)
    S = structures(tier, ck.seed)
    # parent vectors that are not topologically sorted: must be refused (or solved correctly)
    S += [[([-1, 2, 0], [1, 1, 1])], [([-1, 2, 0], [2, 1, 2])], [([-1, 0, 3, 1], [1, 2, 1, 1])]]
    backends = ["jaxley.thomas", "jaxley.stone", "jax.sparse"]
    args = [(c, tier, backends) for c in S] + [(CANARY_STRUCT, "quick", backends, can) for can in CANARIES]
    outs = run_units("jxverif.props.C01", "structure_worker", args)
    n_struct = 0
    failed_funcs = set()
    reached = {}
    viol = 0
    n_replayed = 0
    for o in outs[:len(S)]:
        if o[0] != "ok":
            ck.error(o[1][:500])
            continue
        o = o[1]
        if o["error"]:
            rp = None
            if "IndexOutOfBounds:" in o["error"] and n_replayed < 6:
                n_replayed += 1
                try:
                    rp = native_compare(o["cells"])
                except Exception as e:
                    rp = {"reproduced": True, "reason": f"native construction/integration raised {type(e).__name__}: {str(e)[:100]}"}
            ck.error(f"{o['tag']}: {o['error'][:600]}", replay=rp)
            continue
        n_struct += 1
        for r in o["refused"]:
            ck.refused.append(f"{o['tag']}: {r}")
        bad = [r for r in o["results"] if r["status"] == "refuted"]
        rp = None
        for r in o["results"]:
            ck.add(r)
        if bad and n_replayed >= 6:
            rp = {"reproduced": False, "reason": "native replay limited to the first 6 failing structures of a run (each replay jit-compiles several programs)"}
            for r in bad[:5]:
                failed_funcs.add(r["name"].split(":")[0])
                if viol < 40:
                    ck.violation(r["name"], {"solver": r["backend"], "solver_output": r["detail"], "model": r["model"], "cells": o["cells"], "kind": "c01",
                                             "replay_module": "jxverif.props.C01", "replay": rp}, reproduced=False)
                    viol += 1
        elif bad:
            n_replayed += 1
            # one native replay per structure: all backends, both implicit schemes, against a dense solve of the spec
            try:
                rp = native_compare(o["cells"])
                if not rp["reproduced"]:
                    rp2 = native_compare(o["cells"], solver="crank_nicolson")
                    rp = rp2 if rp2["reproduced"] else rp
                if not rp["reproduced"] and any("fwd_euler" in b["name"] for b in bad):
                    rp2 = native_compare(o["cells"], solver="fwd_euler", backends=("jaxley.thomas", "jaxley.stone"))
                    rp = rp2 if rp2["reproduced"] else rp
            except Exception as e:
                rp = {"reproduced": False, "reason": f"native construction/integration raised {type(e).__name__}: {str(e)[:100]}"}
            for r in bad[:5]:
                failed_funcs.add(r["name"].split(":")[0])
                if viol < 40:
                    ck.violation(r["name"], {"solver": r["backend"], "solver_output": r["detail"], "model": r["model"], "cells": o["cells"], "kind": "c01",
                                             "replay_module": "jxverif.props.C01", "replay": rp, "other_failed_obligations_same_structure": [b["name"] for b in bad[:20]]},
                                 reproduced=rp.get("reproduced", False))
                    viol += 1
        reached.update(o["reached"])
    for can, o in zip(CANARIES, outs[len(S):]):
        ref = o[0] == "ok" and not o[1]["error"] and any(r["status"] != "proved" for r in o[1]["results"])
        ck.canary(f"{can[0]}: {can[2]!r} -> {can[3]!r}", ref, o)
    for f in FUNCS:
        short = f.replace("jaxley.", "").replace("utils.", "")
        n = reached.get(f, 0)
        if n == 0:
            ck.add_function(f, "assumed" if f.startswith("tridiax") else "body NOT discharged")
            if not f.startswith("tridiax"):
                ck.error(f"contract target {f} was never executed")
        else:
            ck.add_function(f, "body NOT discharged" if any(short.split(".")[-1] in ff for ff in failed_funcs) else "body discharged", n)
    for f in ("tridiax.stone.stone_triang_upper", "tridiax.stone.stone_backsub_lower", "tridiax.stone._lu", "tridiax.stone._solve_l", "tridiax.stone._solve_u"):
        ck.add_function(f, "body discharged" if reached.get(f, 0) and not any("stone" in ff for ff in failed_funcs) else "assumed", reached.get(f, 0))
    ck.add_function("jax.experimental.sparse.linalg.spsolve", "assumed")
    ck.extra["code_reached"] = {k: v for k, v in reached.items() if k.split(".")[0] in ("jaxley", "tridiax")}
    ck.extra["structures"] = {"count": n_struct, "exhaustive_within_bound": True,
                              "bound": ("all parent vectors with parents[i]<i for <= 4 branches x ncomp in {1,2}; single branches up to 4 compartments; 2 deeper samples; 6 networks of 2-3 cells; 3 unsorted parent vectors"
                                        if tier == "quick" else "trees <= 4 branches x ncomp in {1,2,3}; all 5-branch trees x ncomp in {1,2}; <= 3 branches with a 4-compartment branch; 60 seeded random trees <= 7 branches / <= 4 compartments; all 2- and 3-cell networks over a 6-cell family")}
    ck.trusted = ["jax.experimental.sparse.linalg.spsolve solves the CSR system it is given", "tridiax.stone_*: its real code runs through the same chain obligations for structures with <= 2 compartments per branch (thorough: also the single 3-compartment branch); for wider branches it is ASSUMED to compute the same function as tridiax.thomas_* (which runs through the chain for every structure)",
                  "jax.numpy/lax/vmap primitive models", "z3 nlsat", "specs/cable.py states the physics",
                  "cited: a strictly diagonally dominant M-matrix system has exactly one solution"]
    # E9: the level-schedule helpers behind the structures above, proved for parent vectors of any length (jxverif/astvc.py)
    from . import layout
    ck.extra["layout_native_evaluations"] = layout.run(ck, tier)
    ck.assumptions += ["positive radius/length/axial resistivity/capacitance, membrane conductance terms >= 0, dt > 0; all REAL values (proved), static structure enumerated (bounded)",
                       "math.pi / jnp.pi are the real number pi"]
    return ck.finish()


def native_compare(cells, seed=0, dt=0.1, backends=("jaxley.thomas", "jaxley.stone", "jax.sparse"), solver="bwd_euler"):
    """E3: build the module natively with random positive geometry, do ONE voltage step per backend through
    jx.integrate and compare with a dense numpy solve of the specification system."""
    import jax
    jax.config.update("jax_enable_x64", True)
    import jaxley as jx
    from ..specs import cable
    rng = np.random.default_rng(seed)
    module = build_module(cells)
    N = len(module.nodes)
    P = {"radius": rng.uniform(0.5, 3.0, N), "length": rng.uniform(5.0, 40.0, N), "axial_resistivity": rng.uniform(500.0, 5000.0, N),
         "capacitance": rng.uniform(0.5, 2.0, N), "v": rng.uniform(-80.0, -40.0, N), "a": np.zeros(N), "c": np.zeros(N)}
    for k in ("radius", "length", "axial_resistivity", "capacitance", "v"):
        module.nodes[k] = P[k]
    module.delete_recordings()
    module.record("v", verbose=False)
    A, b, _ = cable.numeric_system(cells, P, dt)
    if solver == "crank_nicolson":
        A2, b2, _ = cable.numeric_system(cells, P, dt / 2)
        want = 2 * np.linalg.solve(A2, b2)[:N] - P["v"]
    elif solver == "fwd_euler":
        # explicit Euler of the same operator (unbranched modules only: no branch-point unknowns): v + (b - A v), A = I + dt*M
        if A.shape[0] != N:
            return {"cells": cells, "solver": solver, "reproduced": False, "reason": "forward Euler is refused for branched morphologies"}
        dt = 0.001
        A, b, _ = cable.numeric_system(cells, P, dt)
        want = P["v"] + (b - A @ P["v"])
    else:
        want = np.linalg.solve(A, b)[:N]
    out = {"cells": cells, "dt": dt, "solver": solver, "spec_solution": want.tolist(), "backends": {}}
    worst = 0.0
    for be in backends:
        try:
            v = np.asarray(jx.integrate(module, delta_t=dt, t_max=dt, solver=solver, voltage_solver=be))[:, 1]
            err = float(np.max(np.abs(v - want)))
            out["backends"][be] = {"max_abs_err_mV": err, "v": v.tolist()}
            worst = max(worst, err)
        except Exception as e:
            out["backends"][be] = {"refused": f"{type(e).__name__}: {str(e)[:100]}"}
    out["reproduced"] = bool(worst > 1e-6)
    out["reason"] = f"max |v_backend - dense solve of the specification| = {worst:.3e} mV"
    try:
        jax.clear_caches()          # every replay compiles new programs; keep the process small
    except Exception:
        pass
    return out


def replay(p):
    if "fwd_euler" in str(p.get("obligation", "")):
        return native_compare(p["cells"], solver="fwd_euler", backends=("jaxley.thomas", "jaxley.stone"))
    return native_compare(p["cells"])
