"""Interpreted variant of the time-axis engine: the REAL integrate / build_init_and_step_fn / nested_checkpoint_scan run over
the REAL Module.step / get_all_parameters / get_all_states on symbolic tables (jxverif.modsym); only the voltage solver is a
contract stub - an uninterpreted function of the arguments it receives, so the same arguments give the same result.  Terms of
2-4 steps of a small model stay small.  Complements the uninterpreted-step engine (ufterm): code that inspects or rebuilds
states around the step (init_fn, the recording gather, initial currents) is executed for real here.
"""
from __future__ import annotations

import sys
import types

import numpy as np
import z3

from .. import sym as S
from ..modsym import SymModule
from ..sym import Ctx, Runtime, Sym, SymArray

R = z3.RealSort()


def uf_solver_stub(calls):
    """voltage solver as an uninterpreted function of (voltages, voltage_terms, constant_terms, delta_t): component i of
    the result is VSOLVE_i(args...)"""
    def stub(**kw):
        n = len(kw["voltages"])
        args = [Sym.lift(x).e for key in ("voltages", "voltage_terms", "constant_terms") for x in kw[key]] + [Sym.lift(kw["delta_t"]).e]
        out = []
        for i in range(n):
            f = z3.Function(f"VSOLVE_{i}_{len(args)}", *([R] * (len(args) + 1)))
            out.append(Sym(f(*args)))
        calls.append(kw)
        return SymArray(np.asarray(out, dtype=object))
    return stub


class ISim:
    def __init__(self, module):
        import jaxley.solver_voltage as SV
        import jaxley.utils.jax_utils as JU
        JI = sys.modules["jaxley.integrate"]
        self.sm = SymModule(module, stub_solver=False)
        self.calls = []
        rt = self.sm.rt
        stub = uf_solver_stub(self.calls)
        for f in (SV.step_voltage_implicit_with_jaxley_spsolve, SV.step_voltage_implicit_with_jax_spsolve, SV.step_voltage_explicit):
            rt.stub(f, stub)
        self.sm.px = S.Proxy(module, rt, extra={"nodes": self.sm.nodes, "edges": self.sm.edges})
        # real jax_utils / integrate code, with lax.scan as a loop and checkpoint as identity
        inner = rt.reglob(JU._inner_nested_scan).__reglob__
        ncs = rt.reglob(JU.nested_checkpoint_scan).__reglob__
        kd = dict(JU.nested_checkpoint_scan.__kwdefaults__ or {})
        kd.update(scan_fn=S.lax_scan, checkpoint_fn=S._checkpoint)
        ncs.__kwdefaults__ = kd
        self.integrate = rt.reglob(JI.integrate)
        self.build = rt.reglob(JI.build_init_and_step_fn)

    def run(self, externals=None, **kw):
        """externals: dict key -> SymArray (n_rows, T) replacing module.externals (same row order)"""
        px = self.sm.px
        if externals is not None:
            object.__getattribute__(px, "_extra")["externals"] = externals
        return self.integrate(px, **kw)
