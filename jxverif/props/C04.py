"""C04 - built-in mechanisms implement their published kinetics and currents."""
from __future__ import annotations

import importlib
import inspect
from fractions import Fraction

import z3

from .. import discharge as D
from .. import kernels as K
from ..contracts import leaves, resolve
from ..core import Check, run_units
from ..specs import kinetics as KIN
from ..sym import Ctx, E, Proxy, Runtime, Sym, rv, ApiMismatch, Unsupported
from . import common
from .C03 import collect, _num

PID = "C04"
V_LO, V_HI = -150, 100
TOL = rv(Fraction(1, 10**6))
RTOL_Q = rv(Fraction(1, 10**9))


def _ids(t):
    seen = set()
    st = [t]
    while st:
        x = st.pop()
        i = x.get_id()
        if i in seen:
            continue
        seen.add(i)
        st.extend(x.children())
    return seen


def _dedupe(es):
    out, seen = [], set()
    for e in es:
        if e.get_id() not in seen:
            seen.add(e.get_id())
            out.append(e)
    return out


def _dom(a):
    h = []
    for n, s in a.items():
        if n == "v":
            h += [s.e >= V_LO, s.e <= V_HI]
        elif n == "vt":
            h += K.dom_vt(s)
        elif n == "vx":
            h += K.dom_vx(s)
        elif n == "taumax":
            h += K.dom_taumax(s)
    return h


def _absle(d, bound):
    return z3.And(d <= bound, -d <= bound)


def gate_worker(arg):
    """flat run of one real gate function (callees inlined, only jax primitives modelled) against the published rates"""
    target, tier, canary, known = arg
    out = {"target": target, "results": [], "error": "", "error_kind": "", "reached": {}, "api_calls": {}, "boxes": {}}
    undo = common.apply_canary(*canary) if canary else None
    try:
        c = K.REG[target]
        owner, fn = resolve(target)
        Ctx.reset()
        rt = Runtime()
        a = c.inputs()
        try:
            res = rt.reglob(fn)(**a)
        except ApiMismatch as e:
            out["error"], out["error_kind"] = str(e), "api"
            return out
        except Unsupported as e:
            out["error"], out["error_kind"] = str(e), "unsupported"
            return out
    finally:
        if undo:
            undo()
    out["reached"], out["api_calls"] = dict(rt.reached), dict(Ctx.api_calls)
    hyps = _dom(a)
    pub = KIN.GATES[target](**{n: a[n].e for n in a})
    names = ("alpha", "beta") if pub["kind"] == "ab" else ("x_inf", "tau")
    short = c.short
    defs = []
    for r in res:
        defs += [Ctx.defs[k][1] for k in sorted(r.d)]
    hyps = hyps + _dedupe(defs)          # value-level definedness is established under C03
    obls = []
    per = []
    for i, nm in enumerate(names):
        t = res[i].e
        ids = _ids(t)
        clips = _dedupe([cond for (ife, cond) in Ctx.clips if ife.get_id() in ids])
        guards = _dedupe([g for (ife, g) in Ctx.guards if ife.get_id() in ids])
        inactive = clips
        noguard = [z3.Not(g) for g in guards]
        P = pub[nm]
        if P[0] == "exact":
            obls.append((f"{short}:{nm}==published[clip inactive]", hyps + inactive + noguard, t == P[1]))
            pterm = P[1]
        else:
            _, cc, x, u, lim = P
            obls.append((f"{short}:{nm}==published c*x/(exp(u)-1)[clip inactive, away from singularity]", hyps + inactive + noguard,
                         t * (E(u) - 1) == cc * x))
            for gi, g in enumerate(guards):
                ax = z3.If(x >= 0, x, -x)
                obls.append((f"{short}:{nm}~published near removable singularity (rel 1e-9)#{gi}", hyps + inactive + [g],
                             z3.And(_absle(t * (E(u) - 1) - cc * x, RTOL_Q * cc * ax), z3.Implies(x == 0, t == lim))))
            pterm = cc * x / (E(u) - 1)
        per.append((t, pterm, clips, guards))
    allclips = _dedupe(per[0][2] + per[1][2])
    allguards = _dedupe(per[0][3] + per[1][3])
    if allclips:
        any_active = z3.Or(*[z3.Not(cnd) for cnd in allclips])
        if D.satisfiable(hyps + [any_active]) != "unsat":
            # one case per clip that can be active (smaller, stable queries); together they cover the clip-active region
            for ci, cnd in enumerate(allclips):
                active = z3.Not(cnd)
                if D.satisfiable(hyps + [active]) == "unsat":
                    continue
                tag = f"clip#{ci} active"
                if allguards:
                    obls.append((f"{short}:{tag}: region is away from the singular points", hyps + [active], z3.And(*[z3.Not(g) for g in allguards])))
                ng = [z3.Not(g) for g in allguards]
                if pub["kind"] == "ab":
                    (ac, ap, _, _), (bc, bp, _, _) = per
                    xc, xp, tc, tp = ac / (ac + bc), ap / (ap + bp), 1 / (ac + bc), 1 / (ap + bp)
                    pos = [ap > 0, bp > 0, ac > 0, bc > 0]      # sign facts, proved as their own obligation first
                    obls.append((f"{short}:{tag}: code and published rates positive", hyps + [active] + ng, z3.And(*pos)))
                else:
                    (xc, xp, _, _), (tc, tp, _, _) = per
                    pos = [tp > 0, tc > 0]
                    obls.append((f"{short}:{tag}: code and published tau positive", hyps + [active] + ng, z3.And(*pos)))
                obls.append((f"{short}:|x_inf - published| <= 1e-6[{tag}]", hyps + [active] + ng + pos, _absle(xc - xp, TOL)))
                obls.append((f"{short}:|tau - published| <= 1e-6*tau[{tag}]", hyps + [active] + ng + pos, _absle(tc - tp, TOL * tp)))
        else:
            out["results"].append({"name": f"{short}:clips inactive on the whole C04 domain", "status": "proved", "backend": "z3", "time_s": 0.0, "model": {}, "detail": ""})
    boxes = {"v": (V_LO, V_HI), "vt": (-80, -40), "vx": (-10, 10), "taumax": (100, 10000)}
    boxes = {n: boxes[n] for n in a}
    for name, h, g in obls:
        r = D.prove(name, h, g, timeout_ms=common.budget(tier))
        if r.status == "unknown" and tier != "canary":
            w = D.witness_search(h, g, boxes, {"v": [-40, -55, -27, -20, -107, 0]}, n=1500 if tier == "quick" else 20000)
            if w is not None:
                r.status, r.backend, r.model = "refuted", "witness-search", {k: str(v) for k, v in w.items()}
                r.detail = "found by native evaluation with the true functions (obligation undecided by the solver)"
        r = common.apply_known(known, name, h, g, r, tier)
        out["results"].append(r.to_json())
        if tier == "canary" and r.status == "refuted":
            break
    return out


# ---- currents, defaults, renaming ---------------------------------------------------------------------------
def mech_worker(arg):
    name, tier, canary = arg
    spec = K.CHANNELS[name]
    mod = importlib.import_module(spec["mod"])
    cls = getattr(mod, name)
    target = f"{spec['mod']}:{name}.compute_current"
    out = {"target": target, "results": [], "error": "", "error_kind": "", "reached": {}, "api_calls": {}}
    undo = common.apply_canary(*canary) if canary else None
    try:
        def run(prefix, method, **kw):
            Ctx.reset()
            rt = Runtime()
            inst = cls() if prefix == name else cls().change_name(prefix)
            px = Proxy(inst, rt)
            st, pa = K.channel_inputs(name, prefix)
            r = getattr(px, method)(st, **kw, params=pa) if method != "update_states" else px.update_states(st, Sym.var("dt"), Sym.var("v"), pa)
            out["reached"].update(rt.reached)
            return inst, st, pa, r
        try:
            inst, st, pa, cur = run(name, "compute_current", v=Sym.var("v"))
        except ApiMismatch as e:
            out["error"], out["error_kind"] = str(e), "api"
            return out
        v = z3.Real("v")
        s = {k.split("_", 1)[1]: x.e for k, x in st.items()}
        p = {(k.split("_", 1)[1] if k.startswith(name + "_") else k): x.e for k, x in pa.items()}
        hyps = [v >= V_LO, v <= V_HI] + [z3.And(x >= 0, x <= 1) for x in s.values()]
        if "vx" in p:
            hyps += [p["vx"] >= -10, p["vx"] <= 10]
        hyps += [Ctx.defs[k][1] for k in sorted(cur.d)]
        clips = [c for (_, c) in Ctx.clips]
        obls = [(f"{name}.compute_current:==published current", hyps + clips, cur.e == KIN.CURRENTS[name](s, v, p))]
        if clips:
            obls.append((f"{name}.compute_current:clip inactive on domain", hyps, z3.And(*clips)))
        # defaults
        want, src = KIN.DEFAULTS[name]
        have = {k: Fraction(repr(float(x))) for k, x in inst.channel_params.items()}
        ok = have == {k: Fraction(x) for k, x in want.items()}
        out["results"].append({"name": f"{name}:default parameters == documented values ({src})", "status": "proved" if ok else "refuted",
                               "backend": "structural", "time_s": 0.0, "model": {}, "detail": "" if ok else f"have {inst.channel_params} want {want}"})
        # renaming: identical terms, only names change
        if tier != "canary":
            for method in ("compute_current", "update_states", "init_state"):
                kw = {"v": Sym.var("v")} if method == "compute_current" else ({"v": Sym.var("v"), "delta_t": Sym.var("dt")} if method == "init_state" else {})
                i0, st0, pa0, r0 = run(name, method, **kw)
                i1, st1, pa1, r1 = run("Xq7", method, **kw)
                l0 = leaves(r0) if not isinstance(r0, Sym) else [("", r0)]
                l1 = leaves(r1) if not isinstance(r1, Sym) else [("", r1)]
                same = len(l0) == len(l1) and all(
                    a[0].replace(name + "_", "") == b[0].replace("Xq7_", "") and z3.simplify(a[1].e - b[1].e).eq(z3.RealVal(0)) for a, b in zip(l0, l1))
                keys_ok = sorted(i1.channel_params) == sorted(k.replace(name + "_", "Xq7_") if k.startswith(name + "_") else k for k in i0.channel_params) and \
                    sorted(i1.channel_states) == sorted(k.replace(name + "_", "Xq7_") for k in i0.channel_states)
                vals_ok = all(i1.channel_params[k.replace(name + "_", "Xq7_") if k.startswith(name + "_") else k] == val for k, val in i0.channel_params.items())
                good = same and keys_ok and vals_ok
                out["results"].append({"name": f"{name}.{method}:renaming changes only names", "status": "proved" if good else "refuted", "backend": "structural",
                                       "time_s": 0.0, "model": {}, "detail": "" if good else f"terms equal={same} keys={keys_ok} values={vals_ok}"})
    finally:
        if undo:
            undo()
    for nm, h, g in obls:
        out["results"].append(D.prove(nm, h, g, timeout_ms=common.budget(tier)).to_json())
    return out


def syn_worker(arg):
    tier = arg
    from jaxley.synapses import IonotropicSynapse
    out = {"target": "jaxley.synapses.ionotropic:IonotropicSynapse.compute_current", "results": [], "error": "", "error_kind": "", "reached": {}, "api_calls": {}}
    for prefix in ("IonotropicSynapse", "Xq7"):
        Ctx.reset()
        rt = Runtime()
        inst = IonotropicSynapse() if prefix == "IonotropicSynapse" else IonotropicSynapse().change_name(prefix)
        px = Proxy(inst, rt)
        st = {f"{prefix}_s": Sym.var("s")}
        pa = {f"{prefix}_gS": Sym.var("gS"), f"{prefix}_e_syn": Sym.var("e_syn"), f"{prefix}_k_minus": Sym.var("k_minus")}
        cur = px.compute_current(st, Sym.var("v_pre"), Sym.var("v_post"), pa)
        want = z3.Real("gS") * z3.Real("s") * (z3.Real("v_post") - z3.Real("e_syn"))
        out["results"].append(D.prove(f"IonotropicSynapse.compute_current[{prefix}]:== g*s*(v_post - e_syn)", [], cur.e == want).to_json())
        out["reached"].update(rt.reached)
    inst = IonotropicSynapse()
    ok = {k: Fraction(repr(float(v))) for k, v in inst.synapse_params.items()} == {"IonotropicSynapse_gS": Fraction("0.0001"), "IonotropicSynapse_e_syn": Fraction(0), "IonotropicSynapse_k_minus": Fraction("0.025")}
    out["results"].append({"name": "IonotropicSynapse:default parameters (regression pin)", "status": "proved" if ok else "refuted", "backend": "structural", "time_s": 0, "model": {}, "detail": str(inst.synapse_params)})
    return out


CANARIES = [
    ("gate", "jaxley.channels.hh:HH.m_gate", ("jaxley.channels.hh:HH.m_gate", "const", 0.1, 0.11)),
    ("gate", "jaxley.channels.pospischil:Na.h_gate", ("jaxley.channels.pospischil:Na.h_gate", "const", 17.0, 18.0)),
    ("gate", "jaxley.channels.pospischil:CaL.q_gate", ("jaxley.channels.pospischil:CaL.q_gate", "src", "* 3.8", "* 3.7")),
    ("mech", "K", ("jaxley.channels.pospischil:K.compute_current", "src", "(n**4)", "(n**3)")),
    ("mech", "CaT", ("jaxley.channels.pospischil:CaT.compute_current", "const", 57.0, 56.0)),
]


def main(tier):
    ck = Check(PID, tier)
    gate_args = [(t, tier, None, ck.known) for t in KIN.GATES]
    mech_args = [(n, tier, None) for n in K.CHANNELS]
    can_g = [(t, "canary", can, None) for kind, t, can in CANARIES if kind == "gate"]
    can_m = [(t, "canary", can) for kind, t, can in CANARIES if kind == "mech"]
    outs_g = run_units("jxverif.props.C04", "gate_worker", gate_args + can_g)
    outs_m = run_units("jxverif.props.C04", "mech_worker", mech_args + can_m)
    outs_s = run_units("jxverif.props.C04", "syn_worker", [tier])
    collect_c04(ck, outs_g[:len(gate_args)] + outs_m[:len(mech_args)] + outs_s)
    # the Abbott-Marder state equation of IonotropicSynapse is the closed-form postcondition of its C03 contract
    t = "jaxley.synapses.ionotropic:IonotropicSynapse.update_states"
    collect(ck, [("ok", common.verify_one(K.REG[t], K.REG, tier, only=lambda n: n.startswith("closed_form")))])
    # the steady states handed out by init_state are those of the (published) gates: init_state contract, modular
    outs_i = run_units("jxverif.props.common", "worker_verify", [("jxverif.kernels", "REG", t, tier, False, ["steady state of its own gate"], None) for t in K.INIT_TARGETS])
    from .C14 import replay_fixed_point
    collect(ck, outs_i, replay=lambda t, r: (replay_fixed_point(t, r), {"kind": "c14", "replay_module": "jxverif.props.C14", "target": t}))
    for (kind, t, can), o in zip([c for c in CANARIES if c[0] == "gate"] + [c for c in CANARIES if c[0] == "mech"], outs_g[len(gate_args):] + outs_m[len(mech_args):]):
        ref = o[0] == "ok" and (any(r["status"] != "proved" for r in o[1]["results"]) or o[1]["error_kind"] == "api")
        ck.canary(f"{can[0]}: {can[2]!r} -> {can[3]!r}", ref, o)
    ck.trusted = ["jxverif/specs/kinetics.py (published equations, transcribed offline; see provenance caveat)", "jax.numpy primitive models", "z3 + exp axioms"]
    ck.assumptions += [
        "domain: v in [-150,100] mV, gates in [0,1], vt in [-80,-40], vx in [-10,10], taumax in [100,1e4]",
        "value-level definedness of the rate expressions is taken from C03 (used as hypotheses here)",
        "where the clip at exp(20) is inactive the rates are proved EQUAL to the published ones; where it can be active, x_inf and tau are proved within 1e-6 (abs / rel); within |u|<1e-6 of a removable singularity the rate is proved within 1e-9 (rel) of the continuous extension",
        "Pospischil default parameters are a regression pin (no independent table in the docs); HH defaults are NEURON's",
    ]
    return ck.finish()


def collect_c04(ck, outs):
    for o in outs:
        if o[0] != "ok":
            ck.error(o[1])
            continue
        o = o[1]
        t = o["target"]
        if o["error"]:
            if o["error_kind"] == "api":
                name = f"{t}:api"
                ck.add({"name": name, "status": "refuted", "backend": "api-conformance", "time_s": 0, "model": {}, "detail": o["error"]})
                ck.violation(name, {"solver_output": o["error"], "kind": "kernel", "target": t}, reproduced=False)
            else:
                ck.error(f"{t}: {o['error_kind']}: {o['error'][:300]}")
            continue
        ok = True
        for r in o["results"]:
            if r["status"] == "known-finding":
                kid = r["model"].get("known_id")
                rec = [k for k in ck.known if k["id"] == kid][0]
                rp = replay_gate(t, r)
                ck.known_finding(rec, rec["what"] + (" [re-confirmed natively]" if rp.get("reproduced") else " [NOT reproduced natively this run]"))
                ck.extra.setdefault("known_finding_obligations", []).append({"name": r["name"], "detail": r["detail"], "witness": r["model"], "replay": rp})
                continue
            ck.add(r)
            if r["status"] == "refuted":
                ok = False
                rp = replay_gate(t, r)
                ck.violation(r["name"], {"solver": r["backend"], "solver_output": r["detail"], "model": r["model"], "replay": rp,
                                         "kind": "c04", "replay_module": "jxverif.props.C04", "target": t}, reproduced=rp.get("reproduced", False))
            elif r["status"] != "proved":
                ok = False
        ck.add_function(t, "body discharged" if ok else "body NOT discharged", len(o["results"]))
        ck.extra.setdefault("code_reached", {}).update(o["reached"])


def replay_gate(target, r):
    """native replay: call the real gate at the model point and compare x_inf/tau (or the current) with the published
    expression evaluated in 50-digit mpmath"""
    import mpmath
    import jax
    jax.config.update("jax_enable_x64", True)
    from ..sym import zeval
    info = {"target": target}
    try:
        model = {k: Fraction(v) for k, v in r["model"].items() if not k.startswith("EXP") and k != "known_id"}
        if target in KIN.GATES:
            c = K.REG[target]
            owner, fn = resolve(target)
            a = c.inputs()
            nat = {n: float(model.get(n, 0)) for n in a}
            res = getattr(owner, fn.__name__)(**nat)
            res = [float(x) for x in res]
            info["native_inputs"], info["native_result"] = nat, res
            pub = KIN.GATES[target](**{n: rv(Fraction(repr(nat[n]))) for n in a})

            def val(P):
                if P[0] == "exact":
                    return zeval(P[1], {}, mpmath)
                _, cc, x, u, lim = P
                uu = zeval(u, {}, mpmath)
                return zeval(lim, {}, mpmath) if uu == 0 else zeval(cc * x, {}, mpmath) / (mpmath.exp(uu) - 1)
            if pub["kind"] == "ab":
                ap, bp = val(pub["alpha"]), val(pub["beta"])
                want = (ap / (ap + bp), 1 / (ap + bp))
                got = (res[0] / (res[0] + res[1]), 1 / (res[0] + res[1]))
            else:
                want = (val(pub["x_inf"]), val(pub["tau"]))
                got = tuple(res)
            info["published_x_inf_tau"] = [float(w) for w in want]
            info["code_x_inf_tau"] = list(got)
            bad = (not all(map(lambda z: z == z and abs(z) != float("inf"), got))) or abs(got[0] - want[0]) > 1e-6 or abs(got[1] - want[1]) > 1e-6 * abs(want[1])
            info.update(reproduced=bool(bad), reason="x_inf/tau of the real gate vs published (abs 1e-6 / rel 1e-6)")
        else:
            info.update(reproduced=False, reason="no native replay for this obligation kind")
    except Exception as e:
        info.update(reproduced=False, reason=f"replay failed: {type(e).__name__}: {e}")
    return info


def replay(p):
    return replay_gate(p["target"], {"model": p.get("model", {})})
