"""C05 - gradients obtained by differentiating through a simulation are correct.

What a contract can decide: jax.grad IS the derivative of the simulated function wherever (a) every intermediate value -
including the un-selected branch of every where/clip - is finite and every primitive is applied inside its domain of
differentiability, and (b) nothing on the path cuts, replaces or misroutes the derivative.  Under the ASSUMPTION that JAX's
AD, scan, checkpoint and vmap are correct, (a)+(b) are also sufficient.  Decided here:

 1. strict definedness of every kernel on the differentiable path (all real inputs of the C03 domains): the C03 contracts
    with BOTH branches of every where required defined (the NaN-gradient trap of a naively guarded x/(exp(x)-1))
 2. positivity of all pivots of the voltage solve: C01 (referenced, not repeated)
 3. gradient routing of trainables: every index row of make_trainable holds members of its own group only, rows of different
    parameters are disjoint, all indices are in range, and every promise made to XLA about the scatter indices
    (unique_indices / indices_are_sorted) is true - checked on the real get_all_parameters / get_all_states
 5. no select (jnp.where) whose condition is an equality between traced reals - i.e. a branch taken on a null set - has, there, a
    derivative different from the other branch (value right, gradient silently wrong): obligations generated from the real
    kernels (strict mode) and from the real Module.step on symbolic tables, derivative by symbolic differentiation of the terms
 4. AD transparency: no stop_gradient / custom_jvp / custom_vjp / callback / host round trip in the functions on the path
Agreement with finite differences is NOT checked (a numerical experiment, another family of technique).
"""
from __future__ import annotations

import ast
import inspect
import traceback

import numpy as np
import z3

from .. import kernels as K
from ..core import Check, run_units
from .C03 import run_all
from .C08 import _res

PID = "C05"
FORBIDDEN = {"stop_gradient", "custom_jvp", "custom_vjp", "defjvp", "defjvps", "defvjp", "pure_callback", "io_callback", "host_callback", "debug_callback", "item", "tolist"}
PATH_MODULES = ["jaxley.solver_gate", "jaxley.solver_voltage", "jaxley.channels.hh", "jaxley.channels.pospischil", "jaxley.synapses.ionotropic",
                "jaxley.synapses.tanh_rate", "jaxley.synapses.test", "jaxley.integrate", "jaxley.utils.jax_utils", "jaxley.optimize.transforms"]
PATH_FUNCS = {"jaxley.modules.base": ["step", "_step_channels", "_step_channels_state", "_channel_currents", "_step_synapse", "_synapse_currents", "_get_external_input",
                                      "get_all_parameters", "get_all_states", "_get_states_from_nodes_and_edges"],
              "jaxley.modules.network": ["_step_synapse", "_step_synapse_state", "_synapse_currents"],
              "jaxley.utils.cell_utils": ["compute_coupling_cond", "compute_coupling_cond_branchpoint", "compute_impact_on_node", "compute_axial_conductances",
                                          "convert_point_process_to_distributed", "group_and_sum", "query_channel_states_and_params", "params_to_pstate"],
              "jaxley.utils.syn_utils": ["gather_synapes"]}


def transparency_worker(tier):
    import importlib
    out = {"results": [], "error": ""}
    try:
        import sys
        for modname in PATH_MODULES + list(PATH_FUNCS):
            m = sys.modules.get(modname) or importlib.import_module(modname)
            if modname == "jaxley.integrate":
                m = sys.modules["jaxley.integrate"]
            tree = ast.parse(inspect.getsource(m))
            only = PATH_FUNCS.get(modname)
            hits = []
            for node in ast.walk(tree):
                if isinstance(node, (ast.FunctionDef,)) and (only is None or node.name in only):
                    for sub in ast.walk(node):
                        nm = sub.attr if isinstance(sub, ast.Attribute) else (sub.id if isinstance(sub, ast.Name) else None)
                        if nm in FORBIDDEN:
                            hits.append(f"{node.name}:{getattr(sub, 'lineno', '?')}:{nm}")
                        if isinstance(sub, ast.keyword) and sub.arg in ("unique_indices", "indices_are_sorted") and not (isinstance(sub.value, ast.Constant) and sub.value.value is False):
                            hits.append(f"{node.name}:{getattr(sub.value, 'lineno', '?')}:{sub.arg} (a promise to XLA; must be discharged by the routing obligations)")
            promises = [h for h in hits if "promise" in h]
            rules = [h for h in hits if h.rsplit(":", 1)[1] in ("custom_jvp", "defjvp", "defjvps")]
            hard = [h for h in hits if "promise" not in h and h not in rules]
            out["results"].append(_res(f"AD transparency:{modname} uses no stop_gradient/custom_vjp/callback/.item()/.tolist() on the differentiable path (custom_jvp rules are verified separately)", not hard, str(hard[:5]), backend="ast-scan"))
            if rules:
                out.setdefault("custom_jvp_sites", []).extend(f"{modname}:{h}" for h in rules if h.endswith(":custom_jvp"))
            if promises:
                out.setdefault("promises", []).extend(promises)
    except Exception as e:
        out["error"] = f"{type(e).__name__}: {e}\n{traceback.format_exc(limit=8)}"
    return out


def routing_worker(arg):
    tier, canary = arg
    from . import common
    undo = common.apply_canary(*canary) if canary else None
    try:
        return _routing(tier)
    finally:
        if undo:
            undo()


def _routing(tier):
    from jaxley.utils.cell_utils import params_to_pstate
    from ..modsym import SymModule
    from ..sym import Ctx, IndexOutOfBounds, Sym, SymArray
    from . import C10
    out = {"results": [], "error": "", "reached": {}}
    try:
        cases = [("cell", lambda c: c, "radius"), ("branch('all')", lambda c: c.branch("all"), "radius"), ("branch([0,1])", lambda c: c.branch([0, 1]), "length"),
                 ("branch('all')", lambda c: c.branch("all"), "HH_gNa"), ("branch('all').comp('all')", lambda c: c.branch("all").comp("all"), "capacitance"),
                 ("branch('all')", lambda c: c.branch("all"), "v"), ("branch(1)", lambda c: c.branch(1), "HH_m"), ("branch([0,2])", lambda c: c.branch([0, 2]), "axial_resistivity")]
        for vname, vf, key in cases:
            cell, _ = C10.template()
            vf(cell).make_trainable(key, verbose=False)
            inds = np.asarray(cell.indices_set_by_trainables[0])
            n = len(cell.nodes)
            lab = f"{vname}.{key}"
            rows = [set(map(int, r)) for r in inds]
            in_range = bool(((inds >= 0) & (inds < n)).all())
            disjoint = all(rows[i].isdisjoint(rows[j]) for i in range(len(rows)) for j in range(i + 1, len(rows)))
            out["results"].append(_res(f"gradient routing:{lab} indices in [0, n) (a negative index would wrap to another compartment)", in_range, str(inds.tolist()), backend="structural"))
            out["results"].append(_res(f"gradient routing:{lab} rows of different parameters are disjoint (no gradient shared or dropped)", disjoint, str(inds.tolist()), backend="structural"))
            Xg = [Sym(z3.Real(f"X{g}")) for g in range(inds.shape[0])]
            ps = params_to_pstate([{key: SymArray(np.asarray(Xg, dtype=object))}], cell.indices_set_by_trainables)
            Ctx.reset()
            sm = SymModule(cell)
            try:
                sm.prepare(pstate=ps)
                hints = list(Ctx.hint_obl)
                bad = [h for h in hints if not h[1]]
                out["results"].append(_res(f"gradient routing:{lab} every scatter-index promise made to XLA (unique_indices / indices_are_sorted) is true", not bad,
                                           f"{len(hints)} promises; false: {bad[:2]}", backend="structural"))
                arr_ = sm.params[key] if key in sm.params else sm.states[key]
                # each parameter symbol occurs in the array exactly on the distinct rows of its group
                occ = {g: sorted(i for i in range(n) if arr_[i].e.eq(Xg[g].e)) for g in range(len(Xg))}
                ok = all(occ[g] == sorted(rows[g]) for g in range(len(Xg)))
                out["results"].append(_res(f"gradient routing:{lab} parameter g appears in the simulated array on exactly the rows of group g", ok, str(occ), backend="structural"))
            except IndexOutOfBounds as e:
                out["results"].append(_res(f"gradient routing:{lab} scatter in range", False, str(e), backend="structural"))
            out["reached"].update(sm.rt.reached)
    except Exception as e:
        out["error"] = f"{type(e).__name__}: {e}\n{traceback.format_exc(limit=8)}"
    return out


def _unk(name, detail):
    return {"name": name, "status": "unknown", "backend": "z3", "time_s": 0.0, "model": {}, "detail": detail[:600]}


def _kinks(e, acc, seen):
    """boundaries of the order comparisons that decide an If inside a term: the derivative of the If is that of the branch taken
    everywhere except on these null sets"""
    if e.get_id() in seen:
        return
    seen.add(e.get_id())
    if z3.is_app(e):
        if e.decl().kind() == z3.Z3_OP_ITE:
            stack = [e.arg(0)]
            while stack:
                c = stack.pop()
                if z3.is_app(c) and c.decl().kind() in (z3.Z3_OP_LE, z3.Z3_OP_LT, z3.Z3_OP_GE, z3.Z3_OP_GT):
                    acc.append(c.arg(0) != c.arg(1))
                elif z3.is_app(c):
                    stack.extend(c.children())
        for ch in e.children():
            _kinks(ch, acc, seen)


def custom_rule_worker(tier):
    """6. Every jax.custom_jvp object reachable from the modules on the differentiable path carries a rule that IS the derivative
    of its primal: the real primal and the real rule run symbolically, the primal term is differentiated (zdiff), and
    `tangent_out == sum_i d primal / d x_i * tangent_i` and `primal_out == primal` are discharged for all arguments in
    [-1000, 1000] off the kinks of the primal.  Parameters with a default keep it (zero tangent).  A rule that cannot be analysed
    (custom_vjp, symbolic zeros, non-scalar code the runtime cannot run) is reported as `unknown` (undecided), not as a violation."""
    import importlib
    import inspect as _inspect
    import sys
    from .. import discharge as D
    from ..sym import Ctx, Runtime, Sym, primal_of
    out = {"results": [], "error": "", "found": []}
    try:
        for modname in PATH_MODULES + list(PATH_FUNCS):
            m = sys.modules.get(modname) or importlib.import_module(modname)
            if modname == "jaxley.integrate":
                m = sys.modules["jaxley.integrate"]
            for nm, obj in list(vars(m).items()):
                prim = primal_of(obj)
                if prim is None or (prim.__module__ or "") != m.__name__:
                    continue
                label = f"custom derivative rule:{m.__name__}.{nm}"
                out["found"].append(label)
                rule = getattr(obj, "jvp", None)
                if type(obj).__name__ != "custom_jvp" or not callable(rule) or getattr(obj, "symbolic_zeros", False) or getattr(obj, "nondiff_argnums", ()):
                    out["results"].append(_unk(f"{label}: rule can be analysed", f"{type(obj).__name__} with a rule outside the analysed form"))
                    continue
                try:
                    sig = _inspect.signature(prim)
                    Ctx.reset()
                    rt = Runtime()
                    xs, ts, prim_args, tan_args = [], [], [], []
                    for pn, par in sig.parameters.items():
                        if par.default is _inspect.Parameter.empty:
                            x, t = Sym(z3.Real(f"x_{pn}")), Sym(z3.Real(f"t_{pn}"))
                            xs.append(x)
                            ts.append(t)
                            prim_args.append(x)
                            tan_args.append(t)
                        else:
                            prim_args.append(par.default)
                            tan_args.append(0.0)
                    f = rt.reglob(prim)(*prim_args)
                    res = rt.reglob(rule)(tuple(prim_args), tuple(tan_args))
                    po, to = res
                    fe = f.e if isinstance(f, Sym) else z3.RealVal(f)
                    poe = po.e if isinstance(po, Sym) else z3.RealVal(po)
                    toe = to.e if isinstance(to, Sym) else z3.RealVal(to)
                    want = z3.Sum([D.zdiff(fe, x.e) * t.e for x, t in zip(xs, ts)]) if xs else z3.RealVal(0)
                    hy = [z3.And(x.e >= -1000, x.e <= 1000) for x in xs] + [z3.And(t.e >= -10, t.e <= 10) for t in ts]
                    kinks = []
                    _kinks(fe, kinks, set())
                    hy += kinks
                    r1 = D.prove(f"{label}: primal output of the rule == primal", hy, poe == fe, timeout_ms=10000, rounds=2, use_cvc5=False)
                    r2 = D.prove(f"{label}: tangent output == derivative of the primal x tangent (off the {len(kinks)} kinks of the primal)", hy, toe == want, timeout_ms=15000, rounds=3, use_cvc5=False)
                    out["results"] += [r1.to_json(), r2.to_json()]
                except Exception as e:
                    out["results"].append(_unk(f"{label}: rule can be analysed", f"{type(e).__name__}: {str(e)[:200]}"))
    except Exception as e:
        out["error"] = f"{type(e).__name__}: {e}\n{traceback.format_exc(limit=8)}"
    return out


def replay_custom_rule(r):
    """native replay: jax.jvp through the custom rule against jax.jvp through the primal at the counter-model"""
    try:
        import importlib
        import jax
        jax.config.update("jax_enable_x64", True)
        qual = r["name"].split(":")[1]
        modname, nm = qual.rsplit(".", 1)
        obj = getattr(importlib.import_module(modname), nm)
        model = r.get("model", {}) or {}
        xs = [float(eval(str(v).replace("?", ""), {"__builtins__": {}})) if not isinstance(v, (int, float)) else float(v) for k, v in sorted(model.items()) if k.startswith("x_")]
        cands = [xs] if xs else []
        cands += [[c] for c in (21.0, 25.0, -25.0, 0.5, 100.0, -100.0)]
        for c in cands:
            try:
                a = jax.jvp(obj, tuple(c), tuple(1.0 for _ in c))[1]
                b = jax.jvp(obj.fun, tuple(c), tuple(1.0 for _ in c))[1]
            except Exception:
                continue
            if abs(float(a) - float(b)) > 1e-9 * max(1.0, abs(float(b))):
                return {"reproduced": True, "input": c, "jvp_through_custom_rule": float(a), "jvp_through_primal": float(b)}
        return {"reproduced": False}
    except Exception as e:
        return {"reproduced": False, "reason": f"{type(e).__name__}: {str(e)[:120]}"}


def piecewise_worker(arg):
    """5. No select on the differentiable path of a whole Module.step is taken on a null set with a derivative different from its
    surroundings (jnp.where(x == 0, 0, x / a): the value is right everywhere, the derivative at x == 0 is that of the constant).
    The real Module.step runs on symbolic tables of a small network with channels, two synapse types and a current stimulus;
    every select whose condition is an equality between real terms is collected by the runtime and gets one obligation."""
    tier, canary = arg
    from . import common
    from .. import discharge as D
    from ..modsym import SymModule
    from ..sym import Ctx, Sym, SymArray
    from . import C09
    out = {"results": [], "error": "", "reached": {}}
    undo = common.apply_canary(*canary) if canary else None
    try:
        nsel = 0
        for w in ([(0, 3, "I"), (4, 1, "R"), (2, 4, "I")], [(1, 4, "T")]):
            net = C09.build(w)
            for solver in ("bwd_euler", "crank_nicolson"):
                Ctx.reset()
                sm = SymModule(net)
                sm.prepare()
                I = SymArray(np.asarray([Sym(z3.Real("I0")), Sym(z3.Real("I1"))], dtype=object))
                sm.step(externals={"i": I}, external_inds={"i": np.asarray([0, 4])}, solver=solver)
                out["reached"].update(sm.rt.reached)
                hy = [s.e > 0 for k in ("radius", "length", "capacitance") for s in sm.params[k]] + D.PI_FACTS
                tag = f"{solver};edges=" + ".".join(f"{p}>{q}{t}" for p, q, t in w)
                sel = list(Ctx.null_selects)
                nsel += len(sel)
                refuted = False
                for name, h, g in D.null_select_obligations(f"Module.step[{tag}]", hy, sel):
                    r = D.prove(name, h, g, timeout_ms=10000, rounds=1, use_cvc5=False)
                    out["results"].append(r.to_json())
                    if r.status == "refuted":
                        refuted = True
                        break               # one refuted derivative is the violation; the remaining variables add nothing
                if refuted and canary:
                    return out
                out["results"].append(_res(f"Module.step[{tag}]:selects taken on a null set collected ({len(sel)}) and each discharged", True, backend="structural"))
    except Exception as e:
        out["error"] = f"{type(e).__name__}: {e}\n{traceback.format_exc(limit=8)}"
    finally:
        if undo:
            undo()
    return out


CANARIES_P = [
    ("jaxley.utils.cell_utils:convert_point_process_to_distributed", "src", "current /= area", "current = jnp.where(current == 0.0, 0.0, current / area)"),
]
CANARIES_K = [
    ("jaxley.channels.hh:_vtrap", ("jaxley.channels.hh:_vtrap", "src", "x_safe / (save_exp(x_safe / y) - 1.0)", "x / (save_exp(x / y) - 1.0)")),
]
CANARIES_R = [
    ("jaxley.modules.base:Module.get_all_parameters", "src", "params[key] = params[key].at[inds].set(set_param[:, None])", "params[key] = params[key].at[inds].set(set_param[:, None], unique_indices=True)"),
]


def replay_null_select(r):
    """native replay: d/dI of the voltage after one step of a stimulated compartment at I = 0 (a data stimulus), jax.grad against a
    central finite difference"""
    try:
        import jax
        jax.config.update("jax_enable_x64", True)
        import jax.numpy as jnp
        import jaxley as jx
        from jaxley.channels import Leak
        comp = jx.Compartment()
        comp.insert(Leak())
        comp.record("v", verbose=False)

        def f(a):
            ds = comp.data_stimulate(a * jnp.ones((1, 3)), None)
            return jnp.sum(jx.integrate(comp, delta_t=0.025, data_stimuli=ds)[0])
        g = float(jax.grad(f)(0.0))
        h = 1e-4
        fd = float((f(h) - f(-h)) / (2 * h))
        return {"input": "stimulus amplitude 0.0 nA on a Leak compartment, 3 steps", "jax_grad": g, "central_difference": fd,
                "reproduced": bool(abs(g - fd) > 1e-6 * max(1.0, abs(fd)))}
    except Exception as e:
        return {"reproduced": False, "reason": f"{type(e).__name__}: {str(e)[:120]}"}


def main(tier):
    ck = Check(PID, tier)
    # 1. strict definedness of the kernels (C03 contracts, strict mode)
    ts = K.SOLVER_TARGETS + list(K.GATES) + K.UPDATE_TARGETS + K.SYN_TARGETS + K.INIT_TARGETS
    run_all(ck, tier, ts, CANARIES_K, strict=True, only=["__none__"])
    # 3. routing, 4. transparency
    outs = run_units("jxverif.props.C05", "routing_worker", [(tier, None)] + [("quick", c) for c in CANARIES_R])
    outs_t = run_units("jxverif.props.C05", "transparency_worker", [tier])
    outs_p = run_units("jxverif.props.C05", "piecewise_worker", [(tier, None)] + [("quick", c) for c in CANARIES_P])
    outs_c = run_units("jxverif.props.C05", "custom_rule_worker", [tier])
    for can, oc in zip(CANARIES_P, outs_p[1:]):
        ref = oc[0] == "ok" and not oc[1]["error"] and any(r["status"] != "proved" for r in oc[1]["results"])
        ck.canary(f"{can[0]}: {can[2][:50]!r} -> {can[3][:60]!r}", ref, oc)
    for o in outs[:1] + outs_t + outs_p[:1] + outs_c:
        if o[0] != "ok" or o[1]["error"]:
            ck.error(str(o[1] if o[0] != "ok" else o[1]["error"])[:900])
            continue
        for r in o[1]["results"]:
            ck.add(r)
            if r["status"] == "refuted":
                rp = replay_null_select(r) if "taken on a null set" in r["name"] else (replay_custom_rule(r) if r["name"].startswith("custom derivative rule:") else {"reproduced": False})
                ck.violation(r["name"], {"solver": r["backend"], "solver_output": r["detail"], "model": r.get("model", {}), "kind": "c05", "replay": rp}, reproduced=rp.get("reproduced", False))
        if o[1].get("custom_jvp_sites") or o[1].get("found"):
            ck.extra.setdefault("custom_derivative_rules", []).extend(o[1].get("custom_jvp_sites", []) + o[1].get("found", []))
        if o[1].get("promises"):
            ck.extra["scatter_promises_in_source"] = o[1]["promises"]
        ck.extra.setdefault("code_reached", {}).update({k: v for k, v in o[1].get("reached", {}).items() if k.startswith("jaxley")})
    n_sites = sum(len(o[1].get("custom_jvp_sites", [])) for o in outs_t if o[0] == "ok")
    n_found = sum(len(o[1].get("found", [])) for o in outs_c if o[0] == "ok")
    if n_sites > n_found:
        ck.add(_unk("custom derivative rule: every custom_jvp site seen by the scan is a module-level object whose rule was verified", f"{n_sites} sites in the source, {n_found} rules analysed"))
    for can, oc in zip(CANARIES_R, outs[1:]):
        ref = oc[0] == "ok" and not oc[1]["error"] and any(r["status"] != "proved" for r in oc[1]["results"])
        ck.canary(f"{can[0]}: {can[2][:50]!r} -> {can[3][:60]!r}", ref, oc)
    ck.trusted = ["JAX reverse-mode AD, scan, checkpoint, vmap are correct (assumed): under that assumption finiteness of all intermediates + absence of derivative-cutting constructs + correct routing imply grad = derivative",
                  "C01: all pivots / denominators of the voltage solve are positive for positive parameters (not repeated here)", "C06: checkpointed and plain scans compute the same values"]
    ck.assumptions += ["agreement with converged finite differences is not checked mechanically (numerical experiment, a different family); this check claims the side conditions only",
                       "domains as in C03"]
    return ck.finish()
