"""C09 - synaptic current flows from the listed pre- to the listed post-compartment.

For every enumerated wiring the REAL to_jax / get_all_parameters / get_all_states / Network._step_synapse_state /
Network._synapse_currents / gather_synapes / convert_point_process_to_distributed / Module.step run on symbolic .nodes and
.edges tables; the voltage solver is a contract stub that records the membrane terms it receives.  Obligations (all real
values of voltages, parameters, states, geometry; wirings enumerated):

  state   : the updated state of edge row e is the synapse kernel applied to (state[e], v[pre(e)], v[post(e)], params[e])
  current : the membrane terms of compartment i are the sums over {e : post(e) = i} of the kernel current of e, converted
            with the area 2 pi r l of post(e) and divided by the capacitance of i; the secant split is exact for currents
            affine in v_post
  g = 0   : substituting zero conductances makes every synaptic term vanish
  order   : the specification depends on the edge rows only, so every creation order is covered by construction
"""
from __future__ import annotations

import copy
import itertools
import traceback

import numpy as np
import z3

from ..core import Check, run_units
from .C08 import _res

PID = "C09"
TYPES = {"I": "IonotropicSynapse", "T": "TestSynapse", "R": "TanhRateSynapse"}
_TPL = {}


def template():
    if "net" not in _TPL:
        import jax
        jax.config.update("jax_enable_x64", True)
        import jaxley as jx
        comp = jx.Compartment()
        a = jx.Cell([jx.Branch(comp, ncomp=2)], parents=[-1])
        b = jx.Cell()
        c = jx.Cell([jx.Branch(comp, ncomp=1), jx.Branch(comp, ncomp=1)], parents=[-1, 0])
        _TPL["net"] = jx.Network([a, b, c])
    return copy.deepcopy(_TPL["net"])


def wirings(tier):
    L = [(0, 2, "I"), (2, 0, "I"), (1, 3, "T"), (3, 1, "R"), (4, 4, "I"), (0, 2, "T"), (4, 2, "R"), (3, 2, "I")]
    W = [[l] for l in L]
    W += [list(p) for p in itertools.product(L[:7], repeat=2)]
    triples = [(0, 2, 0), (0, 2, 1), (2, 0, 7), (3, 0, 3), (0, 5, 7), (2, 3, 2), (1, 2, 0), (7, 0, 5), (5, 5, 0), (4, 1, 4)]
    W += [[L[i] for i in t] for t in triples]
    W += [[L[0], L[2], L[0], L[0]], [L[2], L[0], L[3], L[7]]]
    if tier != "quick":
        W += [list(p) for p in itertools.product(L, repeat=3)][::3]
    return W


def build(w):
    import jaxley as jx
    from jaxley.connect import connect
    import jaxley.synapses as SY
    net = template()
    for (p, q, t) in w:
        cls = getattr(SY, TYPES[t])
        connect(net.select(nodes=[p]), net.select(nodes=[q]), cls())
    return net


def worker(arg):
    ws, tier, canary = arg
    if ws == "bounded":
        return bounded_worker(tier)
    from . import common
    undo = common.apply_canary(*canary) if canary else None
    try:
        return _worker(ws, tier)
    finally:
        if undo:
            undo()


def _worker(ws, tier):
    import jaxley.synapses as SY
    from .. import discharge as D
    from ..modsym import SymModule, mentions_poison
    from ..specs import cable
    from ..sym import Ctx, Proxy, Runtime, Sym
    out = {"results": [], "error": "", "reached": {}, "n": 0}
    tmo = 30000 if tier == "quick" else (5000 if tier == "canary" else 120000)
    try:
        for w in ws:
            tag = "edges=" + ".".join(f"{p}>{q}{t}" for p, q, t in w)
            net = build(w)
            Ctx.reset()
            sm = SymModule(net)
            sm.prepare()
            new = sm.step()
            out["reached"].update(sm.rt.reached)
            out["n"] += 1
            kind, kw, H = sm.solver_calls[-1]
            N = len(net.nodes)
            v = sm.states["v"]
            r, l, cm = (sm.params[k] for k in ("radius", "length", "capacitance"))
            edges = net.edges
            rt = Runtime()
            vt_sum = [Sym(0)] * N
            ct_sum = [Sym(0)] * N
            diff = Sym(0.001)
            hy = [s.e > 0 for k in ("radius", "length", "capacitance") for s in sm.params[k]] + D.PI_FACTS
            ok_listing = [(int(a), int(b), str(t)) for a, b, t in zip(edges.pre_global_comp_index, edges.post_global_comp_index, edges.type)] == \
                [(p, q, TYPES[t]) for p, q, t in w]
            out["results"].append(_res(f"connect:.edges lists the requested (pre, post, type) rows in creation order[{tag}]", ok_listing, backend="structural"))
            defs_needed = []
            for e in range(len(edges)):
                p, q, tname = int(edges.pre_global_comp_index[e]), int(edges.post_global_comp_index[e]), str(edges.type[e])
                syn = Proxy(getattr(SY, tname)(), rt)
                pn = {k: sm.edges[k][e] for k in syn.synapse_params}
                sn = {k: sm.edges[k][e] for k in syn.synapse_states}
                if any(not isinstance(x, Sym) for x in list(pn.values()) + list(sn.values())):
                    out["results"].append(_res(f"Network._append_multiple_synapses:edge row {e} carries all parameters and states of its type[{tag}]", False, backend="structural"))
                    continue
                s_new = syn.update_states(dict(sn), sm.dt, v[p], v[q], pn)
                for k in sn:
                    # position of edge e within its type = how the per-type arrays are indexed
                    rank = int((edges.type[:e + 1] == tname).sum()) - 1
                    got = new[k][rank]
                    out["results"].append(D.prove(f"Network._step_synapse_state:state {k} of edge row {e} is updated from v[pre={p}], v[post={q}] and its own parameters[{tag}]",
                                                  hy, got.e == s_new[k].e, timeout_ms=tmo, use_cvc5=False).to_json())
                    if mentions_poison(got):
                        out["results"].append(_res(f"Network._step_synapse_state:state {k} of edge row {e} does not depend on an absent (NaN) cell[{tag}]", False, backend="structural"))
                st_for_current = {**sn, **s_new}
                conv = lambda I: I * 100000 / (2 * cable.PI * r[q] * l[q])
                I0 = conv(syn.compute_current(st_for_current, v[p], v[q], pn))
                if tname == "TanhRateSynapse":
                    I1 = conv(syn.compute_current(st_for_current, v[p] + diff, v[q] + diff, pn))
                else:
                    I1 = conv(syn.compute_current(st_for_current, v[p], v[q] + diff, pn))
                vt = (I1 - I0) / diff
                ct = I0 - vt * v[q]
                vt_sum[q] = vt_sum[q] + vt
                ct_sum[q] = ct_sum[q] + ct
                if tname != "TanhRateSynapse":
                    # secant split exact: current affine in v_post  =>  vt*x + ct == I(x) for every x
                    x = Sym(z3.Real("x_post"))
                    Ix = conv(syn.compute_current(st_for_current, v[p], x, pn))
                    out["results"].append(D.prove(f"Network._synapse_currents:linearisation of edge row {e} is exact (current affine in v_post)[{tag}]", hy,
                                                  (vt * x + ct).e == Ix.e, timeout_ms=tmo, use_cvc5=False).to_json())
            vterms, cterms = kw["voltage_terms"], kw["constant_terms"]
            for i in range(N):
                g1 = Sym.lift(vterms[i]).e == (vt_sum[i] / cm[i]).e
                g2 = Sym.lift(cterms[i]).e == (-(ct_sum[i]) / cm[i]).e
                out["results"].append(D.prove(f"Network._synapse_currents:compartment {i} receives exactly the currents of the synapses listed onto it (converted with its area, divided by its capacitance)[{tag}]",
                                              hy, z3.And(g1, g2), timeout_ms=tmo, use_cvc5=False).to_json())
                if mentions_poison(Sym.lift(vterms[i])) or mentions_poison(Sym.lift(cterms[i])):
                    out["results"].append(_res(f"Network._synapse_currents:compartment {i} does not depend on an absent (NaN) cell[{tag}]", False, backend="structural"))
            # zero conductance: every synaptic term vanishes
            gsyms = [sm.edges[k][e].e for e in range(len(edges)) for k in ("IonotropicSynapse_gS", "TestSynapse_gC", "TanhRateSynapse_gS") if k in sm.edges and isinstance(sm.edges[k][e], Sym)]
            sub = [(g, z3.RealVal(0)) for g in gsyms]
            zero = all(z3.simplify(z3.substitute(Sym.lift(vterms[i]).e, *sub)).eq(z3.RealVal(0)) and z3.simplify(z3.substitute(Sym.lift(cterms[i]).e, *sub)).eq(z3.RealVal(0)) for i in range(N))
            if not zero:
                res = D.prove(f"zero conductance:all synaptic membrane terms vanish[{tag}]", hy + [g == 0 for g in gsyms],
                              z3.And(*[z3.And(Sym.lift(vterms[i]).e == 0, Sym.lift(cterms[i]).e == 0) for i in range(N)]), timeout_ms=tmo, use_cvc5=False).to_json()
                out["results"].append(res)
            else:
                out["results"].append(_res(f"zero conductance:all synaptic membrane terms vanish[{tag}]", True, backend="structural"))
            if tier == "canary" and any(r_["status"] == "refuted" for r_ in out["results"]):
                return out
            # the solver received the voltages of the module, nothing else touched v before the solve
            out["results"].append(_res(f"Module.step:solver receives the current voltages[{tag}]", all(kw["voltages"][i].e.eq(v[i].e) for i in range(N)), backend="structural"))
    except Exception as e:
        out["error"] = f"{type(e).__name__}: {e}\n{traceback.format_exc(limit=8)}"
    return out


def bounded_worker(tier):
    """Tier B: `set` through edge / synapse-type views changes exactly the selected rows of .edges (bounded-exhaustive)"""
    out = {"results": [], "error": "", "evals": 0, "distinct": 0}
    try:
        w = [(0, 2, "I"), (1, 3, "T"), (2, 0, "I"), (3, 1, "R"), (4, 4, "I"), (0, 1, "T")]
        bad = []
        cases = set()
        for tname, key in (("IonotropicSynapse", "IonotropicSynapse_gS"), ("TestSynapse", "TestSynapse_gC"), ("TanhRateSynapse", "TanhRateSynapse_slope")):
            rows = [e for e, (_, _, t) in enumerate(w) if TYPES[t] == tname]
            subsets = [[k] for k in range(len(rows))] + [list(range(len(rows)))] + ([[0, len(rows) - 1]] if len(rows) > 2 else [])
            for sub in subsets + ["all"]:
                net = build(w)
                before = net.edges.copy()
                view = getattr(net, tname)
                view = view.edge(sub) if sub != "all" else view
                view.set(key, 0.777)
                after = net.edges
                want = [rows[k] for k in sub] if sub != "all" else rows
                changed = [int(i) for i in after.index if not (after.loc[i].equals(before.loc[i]))]
                vals_ok = all(after.loc[i, key] == 0.777 for i in want)
                out["evals"] += 1
                cases.add((tname, str(sub)))
                if sorted(changed) != sorted(want) or not vals_ok:
                    bad.append((tname, sub, changed, want))
            # global edge view
            for sub in ([0], [1, 2], [5]):
                net = build(w)
                before = net.edges.copy()
                net.select(edges=sub).set(key, 0.5)
                after = net.edges
                changed = [int(i) for i in after.index if not (after.loc[i].equals(before.loc[i]))]
                want = [i for i in sub if TYPES[w[i][2]] == tname]
                out["evals"] += 1
                cases.add((tname, "edge" + str(sub)))
                if sorted(changed) != sorted(want):
                    bad.append((tname, "edge", sub, changed, want))
        # wiring and assigning INTERLEAVED: creating a further synapse (of the same or another type) leaves every existing row of
        # .edges - values assigned through views and states included - as it was; the result is the one of connect-all-then-set
        # (seeded change C09_d: connect() re-initialised all rows of the type)
        import jaxley.synapses as SY
        from jaxley.connect import connect
        bad_seq = []
        for order in ([0, 1, 2, 3, 4, 5], [4, 2, 0, 5, 3, 1]):
            net = template()
            assigned = {}
            for step, e in enumerate(order):
                p_, q_, t_ = w[e]
                connect(net.select(nodes=[p_]), net.select(nodes=[q_]), getattr(SY, TYPES[t_])())
                row = len(net.edges) - 1
                key = {"I": "IonotropicSynapse_gS", "T": "TestSynapse_gC", "R": "TanhRateSynapse_slope"}[t_]
                val = 0.001 * (step + 2)
                net.select(edges=[row]).set(key, val)
                assigned[(row, key)] = val
                if t_ == "I":
                    net.select(edges=[row]).set("IonotropicSynapse_s", 0.25 + 0.1 * step)
                    assigned[(row, "IonotropicSynapse_s")] = 0.25 + 0.1 * step
                for (r_, k_), v_ in assigned.items():
                    if not net.edges.loc[r_, k_] == v_:
                        bad_seq.append(f"order {order}: after creating synapse #{step} ({TYPES[t_]}), edges.loc[{r_}, {k_}] = {net.edges.loc[r_, k_]}, assigned {v_}")
                out["evals"] += 1
            cases.add(("interleaved", str(order)))
        # synapse-type views used BETWEEN connects: the view of a type requested after further synapses of that type were created
        # denotes all of them (seeded change C09_e: indices of a type cached at its first use)
        bad_hist = []
        for order in ([0, 1, 2, 3, 4, 5], [4, 2, 0, 5, 3, 1]):
            net = template()
            kinds = []
            for step, e in enumerate(order):
                p_, q_, t_ = w[e]
                connect(net.select(nodes=[p_]), net.select(nodes=[q_]), getattr(SY, TYPES[t_])())
                kinds.append(t_)
                key = {"I": "IonotropicSynapse_gS", "T": "TestSynapse_gC", "R": "TanhRateSynapse_slope"}[t_]
                val = 0.01 * (step + 1)
                before = net.edges.copy()
                tv = getattr(net, TYPES[t_])              # the type view, requested again after every connect
                rows_t = [r for r, k_ in enumerate(kinds) if k_ == t_]
                got_rows = sorted(int(x) for x in tv._edges_in_view)
                if got_rows != rows_t:
                    bad_hist.append(f"order {order}: after connect #{step} net.{TYPES[t_]} addresses synapses {got_rows}, the {TYPES[t_]} synapses are {rows_t}")
                    continue
                tv.set(key, val)
                changed = sorted(int(i) for i in net.edges.index if not net.edges.loc[i].equals(before.loc[i]))
                if changed != rows_t or not all(net.edges.loc[r, key] == val for r in rows_t):
                    bad_hist.append(f"order {order}: after connect #{step} net.{TYPES[t_]}.set({key}) changed rows {changed}, the {TYPES[t_]} synapses are {rows_t}")
                last = getattr(net, TYPES[t_]).edge(len(rows_t) - 1)
                if sorted(int(x) for x in last._edges_in_view) != [rows_t[-1]]:
                    bad_hist.append(f"order {order}: after connect #{step} net.{TYPES[t_]}.edge({len(rows_t) - 1}) addresses {sorted(int(x) for x in last._edges_in_view)}, the newest {TYPES[t_]} synapse is row {rows_t[-1]}")
                out["evals"] += 1
            cases.add(("type views between connects", str(order)))
        out["results"].append(_res("synapse-type views requested between connects address all synapses of the type created so far; set through them reaches exactly those rows [bounded: 2 creation orders x 6 synapses of 3 types]",
                                   not bad_hist, " | ".join(bad_hist[:3]), backend="bounded-evaluation"))
        out["results"].append(_res("connect after set: creating a further synapse leaves the values assigned to existing synapses untouched [bounded: 2 creation orders x 6 synapses of 3 types, parameter and state assigned after every connect]",
                                   not bad_seq, " | ".join(bad_seq[:3]), backend="bounded-evaluation"))
        out["distinct"] = len(cases)
        out["results"].append(_res("set through synapse-type and edge views changes exactly the selected rows of .edges [bounded: 6-edge network, all single rows / all rows / first+last per type, 3 global edge views]",
                                   not bad, str(bad[:3]), backend="bounded-evaluation"))
    except Exception as e:
        out["error"] = f"{type(e).__name__}: {e}\n{traceback.format_exc(limit=8)}"
    return out


CANARIES = [
    ("jaxley.modules.network:Network._synapse_currents", "src", "params[\"radius\"][post_inds],", "params[\"radius\"][pre_inds],"),
    ("jaxley.modules.network:Network._step_synapse_state", "src", "voltages[pre_inds],", "voltages[post_inds],"),
    ("jaxley.modules.base:Module.step", "src", "\"voltage_terms\": (v_terms + syn_v_terms) / cm,", "\"voltage_terms\": v_terms / cm + syn_v_terms,"),
    ("jaxley.utils.syn_utils:gather_synapes", "src", "post_syn_comp_inds[:, None],", "post_syn_comp_inds[::-1][:, None],"),
]
CANARY_W = [[(0, 2, "I"), (1, 3, "T"), (3, 1, "I")]]


def main(tier):
    ck = Check(PID, tier)
    W = wirings(tier)
    k = 6
    chunks = [(W[i:i + k], tier, None) for i in range(0, len(W), k)]
    outs = run_units("jxverif.props.C09", "worker", chunks + [(CANARY_W, "canary", c) for c in CANARIES] + [("bounded", tier, None)])
    outs_b = outs[-1:]
    outs = outs[:-1]
    nw = 0
    reached = {}
    for o in outs[:len(chunks)] + outs_b:
        if o[0] != "ok" or o[1]["error"]:
            ck.error(str(o[1] if o[0] != "ok" else o[1]["error"])[:800])
            continue
        o = o[1]
        nw += o.get("n", 0)
        reached.update(o.get("reached", {}))
        for r in o["results"]:
            if r["backend"] == "bounded-evaluation":
                ck.bounded = {"evaluations": o["evals"], "distinct_nontrivial": o["distinct"], "exhaustive": True, "status": r["status"],
                              "rule": "set through synapse-type/edge views on a 6-edge network with 3 interleaved synapse types; a case = (view, row subset); distinct by (type, subset)"}
                if r["status"] == "refuted":
                    ck.add(r)
                    ck.violation(r["name"], {"solver_output": r["detail"], "kind": "c09-bounded"}, reproduced=True)
                continue
            ck.add(r)
            if r["status"] == "refuted" and len(ck.violations) < 25:
                ck.violation(r["name"], {"solver": r["backend"], "solver_output": r["detail"], "model": r["model"], "kind": "c09"}, reproduced=False)
    for can, oc in zip(CANARIES, outs[len(chunks):]):
        ref = oc[0] == "ok" and any(r["status"] != "proved" for r in oc[1]["results"])
        ck.canary(f"{can[0]}: {can[2][:50]!r} -> {can[3][:50]!r}", ref, oc)
    for f in ("jaxley.modules.network.Network._step_synapse", "jaxley.modules.network.Network._step_synapse_state", "jaxley.modules.network.Network._synapse_currents",
              "jaxley.utils.syn_utils.gather_synapes", "jaxley.utils.cell_utils.convert_point_process_to_distributed", "jaxley.modules.base.Module.step",
              "jaxley.modules.base.Module.to_jax", "jaxley.modules.base.Module.get_all_parameters", "jaxley.modules.base.Module.get_all_states"):
        if not reached.get(f):
            ck.error(f"contract target {f} was never executed")
        ck.add_function(f, "body discharged" if not ck.violations else "body NOT discharged", reached.get(f, 0))
    ck.add_function("jaxley.modules.base.Module.set (edge / synapse-type views)", "bounded")
    ck.extra["code_reached"] = {k_: v for k_, v in reached.items() if k_.startswith("jaxley")}
    ck.extra["wirings"] = {"count": nw, "rule": "3-cell network (2-compartment cell, point cell, 2-branch cell); singles over an 8-letter alphabet of (pre,post,type) incl. same-compartment and fan-in, all ordered pairs of 7 letters, selected triples/quadruples with interleaved types"}
    ck.trusted = ["synapse kernels themselves (update_states / compute_current) are verified under C03/C04 - here they are applied to the symbols the specification names",
                  "C01: the voltage solver returns the solution for the membrane terms it receives", "jax.numpy/vmap/scatter_add models, z3"]
    ck.assumptions += ["TanhRateSynapse: only the routing of the current at the current voltages is checked; its linearisation differentiates w.r.t. the pre-synaptic voltage (the code perturbs pre and post together), which is reproduced by the specification here and noted in DESIGN.md",
                       "independence of creation order: the specification is a function of the edge rows, so any order is covered; orders of the enumerated wirings are all included explicitly"]
    return ck.finish()
