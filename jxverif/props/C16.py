"""C16 - SWC import preserves the traced morphology.

Pandas/numpy-bound reader: Tier B (bounded contract evaluation against an independent oracle), level `exploration`.
The oracle parses the SWC text itself: sections = maximal unbranched same-type chains (a section starts after a bifurcation
point or a type change and includes its parent point as start of the path), documented conventions: single-point soma =
cylinder of length 2r, the gap between a single-point soma and a neurite is ignored, zero-length sections are set to 1 um;
radii = linear interpolation of the traced radii along the path at the compartment centres (2k+1)/(2n), not interpolating
from the parent's radius across a type change (NEURON's convention, as in the code), clipped to min_radius.
Family: single- and multi-point somata with binary neurite trees attached to the (last) soma point, depth-first order.
"""
from __future__ import annotations

import itertools
import os
import tempfile
import traceback
import warnings

import numpy as np

from ..core import Check, run_units
from .C08 import _res

PID = "C16"


# ---- generator -------------------------------------------------------------------------------------------------------
def gen_swc(rng, n_soma, shape, zero_len=False):
    """shape: nested tuple describing one neurite tree: (n_points, type, left, right) with left/right None or shapes.
    returns list of rows (id, type, x, y, z, r, parent) in depth-first order"""
    rows = []
    pid = [0]

    def add(t, xyz, r, parent):
        pid[0] += 1
        rows.append((pid[0], t, float(xyz[0]), float(xyz[1]), float(xyz[2]), float(r), parent))
        return pid[0]
    pos = np.zeros(3)
    last = -1
    for k in range(n_soma):
        last = add(1, pos + np.array([0.0, 1.5 * k, 0.0]), rng.choice([4.0, 5.5, 7.0]), last)
    anchor = last
    anchor_pos = np.array([0.0, 1.5 * (n_soma - 1), 0.0])

    def tree(sh, parent, ppos, direction):
        n, t, left, right = sh
        cur, cpos = parent, ppos.copy()
        for k in range(n):
            step = direction * rng.choice([1.0, 2.0, 3.5]) + rng.choice([-0.5, 0.0, 0.5], size=3)
            if zero_len and k == 0:
                step = np.zeros(3)
            cpos = cpos + step
            cur = add(t, cpos, rng.choice([0.3, 0.5, 0.8, 1.2, 2.0]), cur)
        if left is not None:
            tree(left, cur, cpos, direction + np.array([0.0, 1.0, 0.0]))
            tree(right, cur, cpos, direction + np.array([0.0, -1.0, 0.5]))
    for i, sh in enumerate(shape):
        tree(sh, anchor, anchor_pos, np.array([1.0 if i % 2 == 0 else -1.0, 0.2 * i, 0.0]))
    return rows


def shapes(tier):
    S = []
    leaf = lambda n, t: (n, t, None, None)
    for t in (2, 3, 4):
        S.append([leaf(2, t)])
    S.append([leaf(1, 3), leaf(3, 4)])
    S.append([(2, 3, leaf(1, 3), leaf(2, 3))])
    S.append([(1, 4, leaf(2, 4), (1, 4, leaf(1, 4), leaf(2, 4)))])
    S.append([leaf(2, 2), (2, 3, leaf(2, 3), leaf(1, 3)), leaf(3, 4)])
    S.append([(3, 4, (2, 4, leaf(1, 4), leaf(1, 4)), leaf(2, 4)), leaf(1, 3)])
    # type changes BETWEEN neurite types (an axon leaving a dendrite, a differently typed continuation): only the gap to a
    # single-point SOMA is ignored, every other first segment counts (seeded change C16_c)
    S.append([(2, 3, leaf(2, 2), leaf(2, 4))])
    S.append([(1, 4, (2, 3, leaf(1, 3), leaf(2, 2)), leaf(2, 4)), leaf(2, 2)])
    # the custom type 5 and user-defined types >= 6 next to the standard ones
    S.append([(2, 3, leaf(2, 6), leaf(2, 7))])
    S.append([leaf(2, 5), (1, 2, leaf(2, 6), leaf(1, 5))])
    if tier != "quick":
        S.append([(1, 3, (1, 3, leaf(1, 3), leaf(1, 3)), (1, 3, leaf(1, 3), leaf(1, 3)))])
        S.append([leaf(5, 2), leaf(4, 3), leaf(6, 4)])
    return S


# ---- oracle ----------------------------------------------------------------------------------------------------------
def oracle(rows):
    pts = {r[0]: r for r in rows}
    kids = {}
    for r in rows:
        kids.setdefault(r[6], []).append(r[0])
    single_soma = rows[0][1] == 1 and (len(rows) == 1 or rows[1][1] != 1)
    sections = []     # dict(points=[ids incl. parent point first], type, parent_section_index)

    def walk(start, parent_point, parent_sec):
        chain = [start]
        t = pts[start][1]
        cur = start
        while True:
            ch = kids.get(cur, [])
            if len(ch) == 1 and pts[ch[0]][1] == t:
                cur = ch[0]
                chain.append(cur)
            else:
                break
        sec = dict(points=([parent_point] if parent_point is not None else []) + chain, type=t, parent=parent_sec, own=chain)
        sections.append(sec)
        idx = len(sections) - 1
        for c in kids.get(cur, []):
            walk(c, cur, idx)
    walk(rows[0][0], None, None)
    for s in sections:
        P = [np.array(pts[i][2:5]) for i in s["points"]]
        R = [pts[i][5] for i in s["points"]]
        if len(s["points"]) == 1:
            s["length"] = 2 * R[0]
            s["profile"] = ([0.0, 1.0], [R[0], R[0]])
            continue
        seg = [float(np.linalg.norm(P[k + 1] - P[k])) for k in range(len(P) - 1)]
        if single_soma and s["parent"] is not None and pts[s["points"][0]][1] == 1 and s["type"] != 1:
            seg[0] = 0.0                                  # gap between a single-point soma and the neurite is ignored
        if s["parent"] is not None and sections[s["parent"]]["type"] != s["type"]:
            R[0] = R[1]                                   # no interpolation from the parent's radius across a type change
        L = sum(seg)
        s["length"] = L if L > 0 else 1.0
        cum = np.concatenate([[0.0], np.cumsum(seg)])
        s["profile"] = ((cum / L).tolist() if L > 0 else None, R)
    return sections, single_soma


def interp(profile, loc):
    xs, rs = profile
    if xs is None:
        return None
    xs, rs = np.asarray(xs), np.asarray(rs)
    # piecewise linear; segments of zero length are skipped (jump to the later radius)
    for k in range(len(xs) - 1):
        if xs[k] <= loc <= xs[k + 1] and xs[k + 1] > xs[k]:
            return rs[k] + (rs[k + 1] - rs[k]) * (loc - xs[k]) / (xs[k + 1] - xs[k])
    return rs[-1]


def write_swc(rows, path):
    with open(path, "w") as f:
        f.write("# generated\n")
        for r in rows:
            f.write(f"{r[0]} {r[1]} {r[2]} {r[3]} {r[4]} {r[5]} {r[6]}\n")


def check_file(rows, ncomps=(1, 2, 3), min_radius=None, tmpdir="."):
    import jaxley as jx
    problems = []
    path = os.path.join(tmpdir, f"gen_{os.getpid()}.swc")
    write_swc(rows, path)
    secs, single = oracle(rows)
    pts = {r[0]: r for r in rows}
    totals, conns = [], []
    try:
        for n in ncomps:
            with warnings.catch_warnings():
                warnings.simplefilter("ignore")
                cell = jx.read_swc(path, ncomp=n, max_branch_len=None, min_radius=min_radius, assign_groups=True)
            nb = cell.total_nbranches
            if nb != len(secs):
                problems.append(f"ncomp={n}: {nb} branches for {len(secs)} sections")
                continue
            # match branches to sections by the traced coordinates of their last point; where several sections end at the same
            # coordinates (zero-length sections) the candidates are disambiguated by the parent relation (backtracking): any
            # matching under which the connectivity agrees is a witness that the file's connectivity is reproduced
            key = lambda xyz: tuple(np.round(np.asarray(xyz, dtype=float), 6))
            par = [int(p) for p in np.asarray(cell.comb_parents)]
            cands = []
            for b in range(nb):
                k = key(cell.xyzr[b][-1, :3])
                cands.append([i for i, s in enumerate(secs) if key(pts[s["points"][-1]][2:5]) == k])
            if any(not c for c in cands):
                problems.append(f"ncomp={n}: branch {[b for b in range(nb) if not cands[b]][0]} does not end at the end point of any section")
                continue
            m = {}

            def assign(b):
                if b == nb:
                    return True
                for i in cands[b]:
                    if i in m.values():
                        continue
                    sp = secs[i]["parent"]
                    if (par[b] == -1) != (sp is None):
                        continue
                    if par[b] != -1 and par[b] in m and m[par[b]] != sp:
                        continue
                    m[b] = i
                    if assign(b + 1):
                        return True
                    del m[b]
                return False
            if not assign(0) or any(par[b] != -1 and m[par[b]] != secs[m[b]]["parent"] for b in range(nb)):
                # no consistent matching: fall back to the first candidates so that the mismatch is reported concretely
                m = {}
                for b in range(nb):
                    free = [i for i in cands[b] if i not in m.values()]
                    if not free:
                        break
                    m[b] = free[0]
            if len(m) != nb:
                problems.append(f"ncomp={n}: branches cannot be matched one-to-one to the sections of the file")
                continue
            par = [int(p) for p in np.asarray(cell.comb_parents)]
            for b in range(nb):
                s = secs[m[b]]
                want_par = -1 if s["parent"] is None else [bb for bb, i in m.items() if i == s["parent"]][0]
                if par[b] != want_par:
                    problems.append(f"ncomp={n}: branch {b} has parent {par[b]}, the file says {want_par}")
                rows_b = cell.nodes[cell.nodes["global_branch_index"] == b]
                Lb = float(rows_b["length"].sum())
                if abs(Lb - s["length"]) > 1e-6 * max(1.0, s["length"]):
                    problems.append(f"ncomp={n}: branch {b} length {Lb} != traced path length {s['length']}")
                if not np.allclose(rows_b["length"].to_numpy(), Lb / n):
                    problems.append(f"ncomp={n}: compartments of branch {b} are not of equal length")
                for k, rad in enumerate(rows_b["radius"].to_numpy()):
                    w = interp(s["profile"], (2 * k + 1) / (2 * n))
                    if w is None:
                        continue
                    if min_radius is not None:
                        w = max(w, min_radius)
                    if abs(rad - w) > 1e-5 * max(1.0, abs(w)):
                        problems.append(f"ncomp={n}: radius of compartment {k} of branch {b} is {rad}, interpolation of the traced radii gives {w}")
            # groups partition the branches by type
            names = {1: "soma", 2: "axon", 3: "basal", 4: "apical"}
            covered = []
            for t, nm in names.items():
                wantb = sorted(b for b in range(nb) if secs[m[b]]["type"] == t)
                gotb = sorted({int(x) for x in cell.nodes.loc[cell.groups[nm], "global_branch_index"]}) if nm in cell.groups else []
                covered += gotb
                if wantb != gotb:
                    problems.append(f"ncomp={n}: group {nm} holds branches {gotb}, type {t} sections are {wantb}")
            # every SWC type (also 0, 5 and the user-defined types >= 6) has its own group, whatever it is called: each branch is
            # in exactly one group, and two branches share a group exactly when their sections have the same type (seeded change C16_e)
            member = {b: [] for b in range(nb)}
            for gname, rows in cell.groups.items():
                for b in sorted({int(x) for x in cell.nodes.loc[rows, "global_branch_index"]}):
                    member[b].append(gname)
            multi = {b: g for b, g in member.items() if len(g) != 1}
            if multi:
                problems.append(f"ncomp={n}: type groups do not partition the branches (branch -> groups: {multi})")
            else:
                for b1 in range(nb):
                    for b2 in range(b1 + 1, nb):
                        same_t = secs[m[b1]]["type"] == secs[m[b2]]["type"]
                        if (member[b1] == member[b2]) != same_t:
                            problems.append(f"ncomp={n}: branches {b1} (type {secs[m[b1]]['type']}, group {member[b1]}) and {b2} (type {secs[m[b2]]['type']}, group {member[b2]}): same group iff same type is violated")
                            break
                    else:
                        continue
                    break
            totals.append(float(cell.nodes["length"].sum()))
            conns.append(tuple(par))
        if totals and (max(totals) - min(totals) > 1e-6 * max(1.0, max(totals)) or len(set(conns)) > 1):
            problems.append(f"total length / connectivity depend on ncomp: {totals} {set(conns)}")
    finally:
        if os.path.exists(path):
            os.unlink(path)
    return problems


def worker(arg):
    part, tier, canary = arg
    from . import common
    undo = common.apply_canary(*canary) if canary else None
    try:
        return _worker(part, tier, canary is not None)
    finally:
        if undo:
            undo()


def _worker(part, tier, is_canary):
    import jax
    jax.config.update("jax_enable_x64", True)
    out = {"results": [], "error": "", "evals": 0, "cases": 0}
    tmp = tempfile.mkdtemp(prefix="jxv_swc_", dir=os.environ.get("JXV_TMP"))
    try:
        bad = []
        if part in ("single", "multi"):
            n_somas = (1,) if part == "single" else (2, 3)
            seeds = range(2 if tier == "quick" else 6)
            for ns in n_somas:
                for sh in shapes(tier):
                    for seed in seeds:
                        for zero in ((False, True) if seed == 0 else (False,)):
                            rng = np.random.default_rng(1000 * ns + 17 * seed + len(str(sh)))
                            rows = gen_swc(rng, ns, sh, zero_len=zero)
                            for mr in (None, 0.6):
                                pr = check_file(rows, ncomps=(1, 2, 3) if tier == "quick" else (1, 2, 3, 5), min_radius=mr, tmpdir=tmp)
                                out["evals"] += 1
                                out["cases"] += 1
                                if pr:
                                    bad.append(f"soma points={ns}, shape={sh}, seed={seed}, zero-length start={zero}, min_radius={mr}: {pr[:2]}")
                            if is_canary and bad:
                                break
            out["results"].append(_res(f"read_swc[{part}-point soma]:one branch per section with the file's connectivity, branch length = traced path length (conventions), radii = interpolated traced radii at compartment centres (min_radius clip), type groups partition the branches, totals independent of ncomp",
                                       not bad, " | ".join(bad[:2]), backend="bounded-evaluation"))
        elif part == "files":
            import jaxley as jx
            for fn in sorted(os.listdir("/repo/tests/swc_files")):
                if not fn.endswith(".swc"):
                    continue
                path = os.path.join("/repo/tests/swc_files", fn)
                tot, con = [], []
                for n in (1, 2, 4):
                    with warnings.catch_warnings():
                        warnings.simplefilter("ignore")
                        c = jx.read_swc(path, ncomp=n, max_branch_len=None)
                    tot.append(float(c.nodes["length"].sum()))
                    con.append(tuple(int(p) for p in np.asarray(c.comb_parents)))
                out["evals"] += 1
                out["cases"] += 1
                if max(tot) - min(tot) > 1e-6 * max(tot) or len(set(con)) > 1:
                    bad.append(f"{fn}: totals {tot}")
                # max_branch_len: splitting shares the boundary points, so the total traced length is preserved
                with warnings.catch_warnings():
                    warnings.simplefilter("ignore")
                    c300 = jx.read_swc(path, ncomp=1, max_branch_len=300.0)
                    c80 = jx.read_swc(path, ncomp=1, max_branch_len=80.0)
                for cc, lim in ((c300, 300.0), (c80, 80.0)):
                    t = float(cc.nodes["length"].sum())
                    if abs(t - tot[0]) > 1e-6 * tot[0]:
                        bad.append(f"{fn}: max_branch_len={lim} changes the total length {t} vs {tot[0]}")
                    if cc.total_nbranches < c.total_nbranches:
                        bad.append(f"{fn}: max_branch_len={lim} lost branches")
            out["results"].append(_res("read_swc[repository files]:total length and connectivity independent of ncomp; max_branch_len splitting preserves the total traced length", not bad, " | ".join(bad[:2]), backend="bounded-evaluation"))
        elif part == "split":
            # contract of max_branch_len splitting (documented rule: a section longer than max_branch_len is split into k
            # equal parts - equal in the number of traced points - with the LEAST k for which every part is at most
            # max_branch_len; the code gives up after 11 parts).  Sections with UNEVENLY spaced traced points included.
            import jaxley as jx
            patterns = [[30, 30, 30, 5, 5, 5, 5], [5, 5, 5, 5, 30, 30, 30], [10] * 8, [40, 1, 1, 1, 40, 1, 1, 1, 40, 1, 1, 1], [2, 2, 2, 50, 2, 2, 2, 2], [7] * 12,
                        [20, 5, 20, 5, 20, 5, 20, 5], [1, 1, 1, 1, 1, 1, 90, 1, 1, 1, 1, 1]]
            if tier != "quick":
                rng = np.random.default_rng(7)
                patterns += [[float(x) for x in rng.choice([2.0, 5.0, 12.0, 30.0], size=int(rng.integers(6, 16)))] for _ in range(30)]
            for ns in (1, 3):
                for pi, steps in enumerate(patterns):
                    for second in (None, patterns[(pi + 3) % len(patterns)]):
                        rows = []
                        for k in range(ns):
                            rows.append((len(rows) + 1, 1, 0.0, 1.5 * k, 0.0, 5.0, len(rows) if rows else -1))
                        anchor = len(rows)
                        for sgn, st in ((1.0, steps), (-1.0, second)):
                            if st is None:
                                continue
                            x, parent = 0.0, anchor
                            for d in st:
                                x += sgn * d
                                rows.append((len(rows) + 1, 3, x, 1.5 * (ns - 1), 0.0, 1.0, parent))
                                parent = len(rows)
                        secs, single = oracle(rows)
                        pts = {r[0]: r for r in rows}
                        path = os.path.join(tmp, f"split_{os.getpid()}.swc")
                        for Lmax in (25.0, 60.0, 100.0):
                            want = []
                            for sct in secs:
                                P = sct["points"]
                                seg = [float(np.linalg.norm(np.array(pts[P[k + 1]][2:5]) - np.array(pts[P[k]][2:5]))) for k in range(len(P) - 1)] if len(P) > 1 else []
                                if single and sct["parent"] is not None and pts[P[0]][1] == 1 and sct["type"] != 1 and seg:
                                    seg[0] = 0.0
                                if len(P) == 1 or sct["length"] <= Lmax:
                                    want.append(sct["length"])
                                    continue
                                k = 1
                                pieces = [sct["length"]]
                                # stops when the parts are short enough, after 11 parts, or when a further split would leave a part
                                # with fewer than two traced points (neighbouring points farther apart than max_branch_len:
                                # the code warns and keeps what it has - finding F23 was a crash here)
                                while max(pieces) > Lmax and k <= 10 and len(P) // (k + 1) >= 2:
                                    k += 1
                                    m = len(P) // k           # the kernel's convention (checked under 'kernels'): floor(n/k) points each, the last part takes the rest
                                    bounds = [0] + [i * m - 1 for i in range(1, k)] + [len(P) - 1]
                                    pieces = [sum(seg[bounds[i]:bounds[i + 1]]) for i in range(k)]
                                want += [x if x > 0 else 1.0 for x in pieces]        # zero-length parts are set to 1 um (documented convention)
                            write_swc(rows, path)
                            lab = f"soma points={ns}, steps={steps}" + (f" + {second}" if second else "") + f", max_branch_len={Lmax}"
                            out["evals"] += 1
                            out["cases"] += 1
                            try:
                                with warnings.catch_warnings():
                                    warnings.simplefilter("ignore")
                                    cell = jx.read_swc(path, ncomp=1, max_branch_len=Lmax)
                            except Exception as e:
                                bad.append(f"{lab}: read_swc raised {type(e).__name__}: {str(e)[:80]}")
                                continue
                            finally:
                                os.unlink(path)
                            got = sorted(float(x) for x in cell.nodes.groupby("global_branch_index")["length"].sum())
                            if len(got) != len(want) or not np.allclose(got, sorted(want), rtol=1e-6, atol=1e-6):
                                bad.append(f"{lab}: branch lengths {got}, documented rule gives {sorted(want)}")
                            elif max(want) <= Lmax and any(g > Lmax * (1 + 1e-9) for g in got):
                                bad.append(f"{lab}: a branch exceeds max_branch_len: {got}")
                        if is_canary and bad:
                            break
            out["results"].append(_res("read_swc[max_branch_len]:every section is split into the least number of equal-point parts that are all at most max_branch_len (unevenly traced sections included); lengths of the parts = traced path lengths", not bad, " | ".join(bad[:2]), backend="bounded-evaluation"))
        elif part == "kernels":
            from jaxley.utils.cell_utils import _split_branch_equally, _radius_generating_fn, build_radiuses_from_xyzr
            # _split_branch_equally: pieces cover the branch, consecutive pieces share exactly one point (bounded-exhaustive)
            for L in range(2, 41):
                for k in range(2, 11):          # the only caller starts at two pieces
                    if L < 2 * k:
                        continue
                    br = list(range(100, 100 + L))
                    ps = _split_branch_equally(br, k)
                    out["evals"] += 1
                    out["cases"] += 1
                    ok = len(ps) == k and ps[0][0] == br[0] and ps[-1][-1] == br[-1] and all(len(p) >= 2 or k == 1 for p in ps) and all(ps[i][-1] == ps[i + 1][0] for i in range(k - 1)) and \
                        [x for i, p in enumerate(ps) for x in (p if i == 0 else p[1:])] == br
                    if not ok:
                        bad.append(f"_split_branch_equally(len {L}, {k}) -> {[len(p) for p in ps]}")
            out["results"].append(_res("_split_branch_equally:pieces cover the branch and consecutive pieces share exactly one point, for all branch lengths 4..40 and 2..10 pieces with len >= 2*pieces (bounded-exhaustive)", not bad, str(bad[:3]), backend="bounded-evaluation"))
            # radius function: passes through the traced radii at the traced positions, linear in between; centres (2k+1)/(2n)
            bad2 = []
            rng = np.random.default_rng(0)
            for trial in range(40):
                m = int(rng.integers(2, 7))
                each = rng.uniform(0.5, 5.0, m - 1)
                rad = rng.uniform(0.2, 3.0, m)
                f = _radius_generating_fn(radiuses=rad.copy(), each_length=each.copy())
                cum = np.concatenate([[0], np.cumsum(each)]) / each.sum()
                for j in range(m):
                    if abs(float(f(np.asarray([cum[j]]))[0]) - rad[j]) > 1e-6:
                        bad2.append(f"radius at traced point {j} is {float(f(np.asarray([cum[j]]))[0])}, traced {rad[j]}")
                for j in range(m - 1):
                    mid = (cum[j] + cum[j + 1]) / 2
                    if abs(float(f(np.asarray([mid]))[0]) - (rad[j] + rad[j + 1]) / 2) > 1e-6:
                        bad2.append("midpoint is not the mean of the bracketing radii")
                for n in (1, 2, 5):
                    got = build_radiuses_from_xyzr([f], [0], None, n)
                    want = [float(f(np.asarray([(2 * k + 1) / (2 * n)]))[0]) for k in range(n)]
                    if not np.allclose(got, want):
                        bad2.append(f"build_radiuses_from_xyzr does not evaluate at the centres (2k+1)/(2n) for n={n}")
                out["evals"] += 1
                out["cases"] += 1
            out["results"].append(_res("_radius / build_radiuses_from_xyzr:interpolant passes through the traced radii, is linear in between, evaluated at the centres (2k+1)/(2n) (40 seeded profiles)", not bad2, str(bad2[:3]), backend="bounded-evaluation"))
    except Exception as e:
        out["error"] = f"{type(e).__name__}: {e}\n{traceback.format_exc(limit=8)}"
    finally:
        try:
            os.rmdir(tmp)
        except OSError:
            pass
    return out


PARTS = ["single", "multi", "files", "kernels", "split"]
CANARIES = [
    ("multi", ("jaxley.utils.cell_utils:_compute_pathlengths", "src", "point_diffs[:, 1] ** 2 + point_diffs[:, 2] ** 2 + point_diffs[:, 3] ** 2", "point_diffs[:, 1] ** 2 + point_diffs[:, 2] ** 2")),
    ("single", ("jaxley.io.swc:swc_to_jaxley", "src", "pathlengths[i] = 1.0", "pathlengths[i] = 1e-8")),
    ("kernels", ("jaxley.utils.cell_utils:build_radiuses_from_xyzr", "src", "np.linspace(non_split / 2, 1 - non_split / 2, ncomp)", "np.linspace(0, 1 - non_split, ncomp)")),
    ("split", ("jaxley.utils.cell_utils:_split_long_branches", "src", "length = max(lengths_of_subbranches)", "length = min(lengths_of_subbranches)")),
]


def main(tier):
    ck = Check(PID, tier, level="exploration")
    outs = run_units("jxverif.props.C16", "worker", [(p, tier, None) for p in PARTS] + [(p, "quick", c) for p, c in CANARIES])
    evals = cases = 0
    for o in outs[:len(PARTS)]:
        if o[0] != "ok" or o[1]["error"]:
            ck.error(str(o[1] if o[0] != "ok" else o[1]["error"])[:900])
            continue
        o = o[1]
        evals += o["evals"]
        cases += o["cases"]
        for r in o["results"]:
            ck.add(r)
            if r["status"] == "refuted":
                ck.violation(r["name"], {"solver": r["backend"], "solver_output": r["detail"], "kind": "c16"}, reproduced=True)
    for (p, can), oc in zip(CANARIES, outs[len(PARTS):]):
        ref = oc[0] == "ok" and not oc[1]["error"] and any(r["status"] != "proved" for r in oc[1]["results"])
        ck.canary(f"{can[0]}: {can[2][:50]!r} -> {can[3][:50]!r}", ref, oc)
    ck.bounded = {"evaluations": evals, "distinct_nontrivial": cases, "exhaustive": False,
                  "rule": "generated SWC files: 1-, 2- and 3-point somata x 8 (quick) neurite-tree shapes (types 2,3,4 and the custom types 5,6,7; chains and binary bifurcations to depth 3) x seeds for coordinates/radii x {regular, zero-length first segment} x min_radius in {None, 0.6}, each read with ncomp in {1,2,3}; "
                          "the repository's SWC files for ncomp-independence and max_branch_len; _split_branch_equally exhaustively for lengths 4..40 x 2..10 pieces; 40 seeded radius profiles. A case = one distinct generated file x setting"}
    for f in ("jaxley.io.swc.read_swc", "jaxley.io.swc.swc_to_jaxley", "jaxley.utils.cell_utils._split_into_branches", "jaxley.utils.cell_utils._build_parents", "jaxley.utils.cell_utils._compute_pathlengths",
              "jaxley.utils.cell_utils._radius_generating_fns", "jaxley.utils.cell_utils._radius", "jaxley.utils.cell_utils.build_radiuses_from_xyzr", "jaxley.utils.cell_utils._split_branch_equally", "jaxley.utils.cell_utils._split_long_branches"):
        ck.add_function(f, "bounded")
    ck.trusted = ["the SWC oracle in this file states what the property means (sections, conventions)", "numpy.loadtxt / numpy.digitize"]
    ck.assumptions += ["family: neurites attach to the single soma point or to the LAST point of a multi-point soma (a neurite attached to the first point of a multi-point soma makes jaxley add a padded root branch - outside this contract)",
                       "across a type change the radius is not interpolated from the parent's radius (code convention, NEURON-like)", "level: exploration (bounded contract evaluation)"]
    return ck.finish(rule=ck.bounded["rule"])
