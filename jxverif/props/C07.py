"""C07 - simulations compose in time.

E4 on the real integrate / build_init_and_step_fn (uninterpreted step):
  * recs(n1+n2) == recs(n1) ++ recs(n2 | all_states = returned states)[1:] with the stimulus split accordingly
  * manual stepping with init_fn / step_fn produces the same state terms
  * init_fn returns all_states unchanged when given
  * the state returned with return_states=True is the state after the last returned time point, for every
    checkpoint layout   (known finding F6: layouts whose product exceeds the number of steps)
"""
from __future__ import annotations

import traceback

import numpy as np

from ..core import Check, run_units
from . import e4
from .C08 import _res

PID = "C07"


def base_scenarios(tier):
    R = [(1, 0, "v"), (0, 1, "HH_m"), (0, 0, "v")]
    stim = [[("static", [(0, 0)], "a")], [("static", [(2, 0), (2, 1)], "a"), ("data", [(0, 1)], "b")], [("data", [(1, 0)], "a")]]
    clamp = [[], [("static", "v", (1, 0), "c")], [("data", "HH_m", (0, 0), "c")]]
    Ts = (4,) if tier == "quick" else (3, 5, 6)
    out = []
    for st in stim:
        for cl in clamp:
            for T_len in Ts:
                out.append((R, st, cl, T_len))
    return out


def worker(arg):
    tier, lo, hi, canary, known = arg
    from .. import ufterm as U
    from ..ufterm import T
    from . import common
    out = {"results": [], "error": "", "refused": [], "known": []}
    undo = common.apply_canary(*canary) if canary else None
    try:
        fns = U.real_functions()
        for (R, st, cl, T_len) in base_scenarios(tier)[lo:hi]:
            full = e4.Scenario(R, st, cl, T_len=T_len)
            lab = full.label()
            states = e4.spec_for(full)
            n = full.nsteps()
            A = e4.run_integrate(full, fns, return_states=True)
            if "exception" in A:
                if A.get("engine_limit"):
                    out.setdefault("limits", []).append(f"{lab}: {A['exception']}")
                else:
                    out["results"].append(_res(f"integrate:accepts[{lab}]", False, A["exception"]))
                continue
            out["results"].append(_res(f"integrate(return_states=True):returned state == state after the last returned time point[plain;{lab}]",
                                       isinstance(A["state"], U.State) and A["state"].term == states[n]))
            # every checkpoint layout
            for cl_ in e4.factorizations(n, max(n + 2, 6) if tier == "quick" else max(n + 4, 12)):
                o = e4.run_integrate(full, fns, checkpoint_lengths=cl_, return_states=True)
                nm = f"integrate(return_states=True):returned state == state after the last returned time point[checkpoint_lengths={cl_};{lab}]"
                if "exception" in o:
                    out["results"].append(_res(nm, False, o["exception"]))
                    continue
                ok = isinstance(o["state"], U.State) and o["state"].term == states[n]
                import math
                if not ok and math.prod(cl_) > n and any(k["id"] == "F6" for k in known):
                    # known finding F6: the state after prod(checkpoint_lengths) steps is returned
                    extra = U.spec_states(states[n], math.prod(cl_) - n, lambda k: _pad_ext(full, n + k), full.dt, e4.S0_term(full)[1], full.solver, full.vs)
                    is_f6 = isinstance(o["state"], U.State) and o["state"].term == extra[-1]
                    if is_f6:
                        out["known"].append(("F6", nm))
                        continue
                out["results"].append(_res(nm, ok, "" if ok else f"returned {o['state']!r:.200}"))
            # continuation: split n1 + n2
            PA = np.asarray(A["recs"], dtype=object)
            for n1 in range(1, n):
                n2 = n - n1
                s1 = e4.Scenario(R, st, cl, T_len=n1)
                B1 = e4.run_integrate(s1, fns, return_states=True)
                s2 = e4.Scenario(R, st, cl, T_len=n2, offset=n1)
                nm = f"integrate:{n1}+{n2} steps in one call == {n1} steps, then {n2} steps from the returned states[{lab}]"
                if "exception" in B1:
                    out["results"].append(_res(nm, False, B1["exception"]))
                    continue
                B2 = e4.run_integrate(s2, fns, all_states=B1["state"])
                if "exception" in B2:
                    out["results"].append(_res(nm, False, B2["exception"]))
                    continue
                P1, P2 = np.asarray(B1["recs"], dtype=object), np.asarray(B2["recs"], dtype=object)
                ok = P1.shape[1] == n1 + 1 and P2.shape[1] == n2 + 1 and all(a == b for a, b in zip(P1.reshape(-1), PA[:, :n1 + 1].reshape(-1))) and \
                    all(a == b for a, b in zip(P2.reshape(-1), PA[:, n1:].reshape(-1)))
                out["results"].append(_res(nm, ok))
                if n2 >= 2:       # a second split
                    s2a = e4.Scenario(R, st, cl, T_len=1, offset=n1)
                    s2b = e4.Scenario(R, st, cl, T_len=n2 - 1, offset=n1 + 1)
                    C1 = e4.run_integrate(s2a, fns, all_states=B1["state"], return_states=True)
                    if "exception" not in C1:
                        C2 = e4.run_integrate(s2b, fns, all_states=C1["state"])
                        ok2 = "exception" not in C2 and all(a == b for a, b in zip(np.asarray(C2["recs"], dtype=object).reshape(-1), PA[:, n1 + 1:].reshape(-1)))
                        out["results"].append(_res(f"integrate:repeated splitting {n1}+1+{n2 - 1}[{lab}]", ok2))
            # manual stepping with build_init_and_step_fn
            cell, ds, dc = full.build()
            m = U.E4Module(cell, full.sy)
            ext = {k: v for k, v in m.externals.items()}
            inds = {k: v for k, v in m.external_inds.items()}
            ext, inds = fns["add_stimuli"](dict(ext), dict(inds), ds)
            ext, inds = fns["add_clamps"](ext, inds, dc)
            init_fn, step_fn = fns["build_init_and_step_fn"](m, voltage_solver=full.vs, solver=full.solver)
            s, p = init_fn([], None, None, full.dt)
            ok = isinstance(s, U.State) and s.term == states[0]
            for k in range(n):
                ek = {key: np.asarray(v, dtype=object)[:, k].view(U.TArr) for key, v in ext.items()}
                s = step_fn(s, p, ek, inds, full.dt)
                ok = ok and isinstance(s, U.State) and s.term == states[k + 1]
            out["results"].append(_res(f"build_init_and_step_fn:init_fn then {n} x step_fn yields the states of integrate[{lab}]", ok))
            given = U.State(T("GIVEN"))
            s2_, _ = init_fn([], given, None, full.dt)
            out["results"].append(_res(f"build_init_and_step_fn:init_fn returns all_states unchanged when given[{lab}]", s2_ is given or (isinstance(s2_, U.State) and s2_.term == given.term)))
    except Exception as e:
        out["error"] = f"{type(e).__name__}: {e}\n{traceback.format_exc(limit=8)}"
    finally:
        if undo:
            undo()
    return out


def _pad_ext(sc, k):
    """inputs of a step beyond the run: integrate pads every external with zeros"""
    out = []
    for key in sorted(sc.expected_ext):
        pairs = tuple(sorted(((tgt, 0.0) for (tgt, name, row) in sc.expected_ext[key]), key=lambda p: (p[0], repr(p[1]))))
        out.append((key, pairs))
    return tuple(out)


CANARIES = [
    ("jaxley.integrate:build_init_and_step_fn", "src", "if all_states is None\n            else all_states", "if all_states is None\n            else module.get_all_states(pstate, all_params, delta_t)"),
    ("jaxley.integrate:integrate", "src", "return (recs, all_states) if return_states else recs", "return (recs, init_fn(params, None, param_state, delta_t)[0]) if return_states else recs"),
]


def native_f6():
    """F6 natively: checkpoint_lengths=[2,2] with 3 steps: returned states are those after 4 steps"""
    import jax
    jax.config.update("jax_enable_x64", True)
    import jax.numpy as jnp
    import jaxley as jx
    from jaxley.channels import HH
    try:
        cell = jx.Cell()
        cell.insert(HH())
        cell.record("v", verbose=False)
        cell.stimulate(jnp.ones(3) * 0.05, verbose=False)
        r4 = jx.integrate(cell, delta_t=0.025, t_max=0.1)           # 5 columns: 0..4 steps, stimulus padded with zeros
        _, st = jx.integrate(cell, delta_t=0.025, checkpoint_lengths=[2, 2], return_states=True)
        r3, st3 = jx.integrate(cell, delta_t=0.025, return_states=True)
        v_ret = float(st["v"][0])
        return {"v_after_3_steps": float(r3[0, 3]), "v_returned_with_[2,2]": v_ret, "v_after_4_steps": float(r4[0, 4]),
                "reproduced": bool(abs(v_ret - float(r3[0, 3])) > 1e-9), "reason": "returned state is the state after prod(checkpoint_lengths)=4 steps, not after the 3 returned ones"}
    except Exception as e:
        return {"reproduced": False, "reason": f"{type(e).__name__}: {str(e)[:100]}"}


def interpreted_worker(arg):
    """the REAL integrate over the REAL Module.step on symbolic tables (voltage solver = uninterpreted function of its
    arguments): continuation and manual stepping as equalities of the recorded TERMS, including recorded currents"""
    tier, canary = arg
    from . import common
    undo = common.apply_canary(*canary) if canary else None
    try:
        return _interpreted(tier)
    finally:
        if undo:
            undo()


def _interpreted(tier):
    import jax
    jax.config.update("jax_enable_x64", True)
    import jax.numpy as jnp
    import z3
    import jaxley as jx
    from jaxley.channels import HH, Leak
    from ..sym import Ctx, Sym, SymArray
    from .isim import ISim
    out = {"results": [], "error": "", "reached": {}}
    try:
        models = []
        c1 = jx.Cell()
        c1.insert(HH())
        for st in ("v", "i_HH", "HH_m"):
            c1.record(st, verbose=False)
        c1.stimulate(jnp.ones(4) * 0.1, verbose=False)
        models.append(("one compartment, HH, records v / i_HH / HH_m, one stimulus", c1, 1))
        comp = jx.Compartment()
        c2 = jx.Cell([jx.Branch(comp, ncomp=2)], parents=[-1])
        c2.insert(Leak())
        c2.comp(1).insert(HH())
        c2.comp(0).record("v", verbose=False)
        c2.comp(1).record("i_HH", verbose=False)
        c2.comp(1).record("i_Leak", verbose=False)
        c2.comp(0).stimulate(jnp.ones(4) * 0.1, verbose=False)
        c2.comp(1).clamp("HH_m", jnp.ones(4) * 0.3, verbose=False)
        models.append(("two compartments, Leak + partial HH, records v / i_HH / i_Leak, stimulus and a clamped gate", c2, 1))
        c3 = jx.Cell([jx.Branch(comp, ncomp=2)], parents=[-1])
        c3.insert(Leak())
        c3.comp(0).record("v", verbose=False)
        c3.comp(1).record("v", verbose=False)
        c3.comp(1).record("i_Leak", verbose=False)
        c3.comp(1).clamp("v", jnp.ones(4) * -55.0, verbose=False)
        c3.comp(0).stimulate(jnp.ones(4) * 0.05, verbose=False)
        models.append(("two compartments, Leak, voltage clamp on one compartment and a stimulus on the other", c3, 1))
        # trainable INITIAL STATES: a continued run starts from the states handed in, not from the trained starting values again
        # (seeded change C07_f re-applies the trainable / data_set state overrides on every continuation)
        c4 = jx.Cell([jx.Branch(comp, ncomp=2)], parents=[-1])
        c4.insert(Leak())
        c4.comp(1).insert(HH())
        c4.comp(0).record("v", verbose=False)
        c4.comp(1).record("HH_m", verbose=False)
        c4.comp(1).record("v", verbose=False)
        c4.comp(0).stimulate(jnp.ones(4) * 0.1, verbose=False)
        c4.comp(0).make_trainable("v", verbose=False)
        c4.comp(1).make_trainable("HH_m", verbose=False)
        c4.comp(1).make_trainable("HH_gNa", verbose=False)
        name4 = "two compartments, Leak + partial HH, trainable initial voltage, trainable initial gate and a trainable conductance"
        models.append((name4, c4, 1))
        KW = {name4: lambda: dict(params=[{"v": SymArray(np.asarray([Sym(z3.Real("Vtrain"))], dtype=object))}, {"HH_m": SymArray(np.asarray([Sym(z3.Real("Mtrain"))], dtype=object))},
                                          {"HH_gNa": SymArray(np.asarray([Sym(z3.Real("Gtrain"))], dtype=object))}])}
        kw_of = lambda nm: (KW[nm]() if nm in KW else {})
        dt = Sym(z3.Real("dt"))
        T = 3 if tier == "quick" else 4

        def ext(m, lo, hi):
            return {k: SymArray(np.asarray([[Sym(z3.Real(f"{k}{r}_{j}")) for j in range(lo, hi)] for r in range(np.asarray(v).shape[0])], dtype=object)) for k, v in m.externals.items()}

        def same(a, b):
            a, b = np.asarray(a, dtype=object), np.asarray(b, dtype=object)
            return a.shape == b.shape and all(x.e.eq(y.e) or z3.simplify(x.e - y.e).eq(z3.RealVal(0)) for x, y in zip(a.reshape(-1), b.reshape(-1)))
        for name, mod, _ in models:
            Ctx.reset()
            s = ISim(mod)
            full, stf = s.run(ext(mod, 0, T), delta_t=dt, return_states=True, **kw_of(name))
            out["reached"].update(s.sm.rt.reached)
            for n1 in range(1, T):
                Ctx.reset()
                a, st1 = ISim(mod).run(ext(mod, 0, n1), delta_t=dt, return_states=True, **kw_of(name))
                snap1 = {k: list(np.asarray(v, dtype=object).reshape(-1)) for k, v in st1.items()}
                b, st2 = ISim(mod).run(ext(mod, n1, T), delta_t=dt, all_states=st1, return_states=True, **kw_of(name))
                untouched = sorted(snap1) == sorted(st1) and all(len(snap1[k]) == len(np.asarray(st1[k], dtype=object).reshape(-1)) and
                                                                 all((x is y) or (isinstance(x, Sym) and isinstance(y, Sym) and x.e.eq(y.e)) or (not isinstance(x, Sym) and x == y)
                                                                     for x, y in zip(snap1[k], np.asarray(st1[k], dtype=object).reshape(-1))) for k in snap1)
                out["results"].append(_res(f"interpreted integrate[{name}]:the states handed in as all_states are left untouched by a continuation of {T - n1} step(s) (they can be used again)", untouched, backend="structural"))
                ok = same(np.asarray(full, dtype=object)[:, :n1 + 1], a) and same(np.asarray(full, dtype=object)[:, n1:], b)
                out["results"].append(_res(f"interpreted integrate[{name}]:{n1}+{T - n1} steps in one call == {n1} steps then {T - n1} from the returned states (all recorded terms, the seam column included)", ok, backend="structural"))
                oks = sorted(stf) == sorted(st2) and all(same(stf[k], st2[k]) for k in stf)
                out["results"].append(_res(f"interpreted integrate[{name}]:state returned after {n1}+{T - n1} continued steps == state returned by the single call", oks, backend="structural"))
            if name in KW:
                continue            # manual stepping and checkpoint layouts are covered by the models without trainables
            # manual stepping
            Ctx.reset()
            s = ISim(mod)
            init_fn, step_fn = s.build(s.sm.px, voltage_solver="jaxley.stone", solver="bwd_euler")
            s.sm.px.to_jax()
            states, params = init_fn([], None, None, dt)
            E = ext(mod, 0, T)
            cols = [[states[st][int(ix)] for st, ix in zip(mod.recordings.state, mod.recordings.rec_index)]]
            for k in range(T):
                ek = {key: v[:, k] for key, v in E.items()}
                states = step_fn(states, params, ek, {kk: np.asarray(vv) for kk, vv in mod.external_inds.items()}, dt)
                cols.append([states[st][int(ix)] for st, ix in zip(mod.recordings.state, mod.recordings.rec_index)])
            man = np.asarray(cols, dtype=object).T
            out["results"].append(_res(f"interpreted build_init_and_step_fn[{name}]:init_fn then {T} x step_fn reproduces the recordings of integrate", same(full, man), backend="structural"))
            for cl in ([T], [1, T], [2, 2] if T <= 4 else [2, 3]):
                import math
                if math.prod(cl) < T:
                    continue
                Ctx.reset()
                r2 = ISim(mod).run(ext(mod, 0, T), delta_t=dt, checkpoint_lengths=cl)
                out["results"].append(_res(f"interpreted integrate[{name}]:checkpoint_lengths={cl} returns the recordings of the plain call", same(full, r2), backend="structural"))
    except Exception as e:
        out["error"] = f"{type(e).__name__}: {e}\n{traceback.format_exc(limit=8)}"
    return out




def main(tier):
    ck = Check(PID, tier)
    n = len(base_scenarios(tier))
    chunks = [(tier, lo, lo + 1, None, ck.known) for lo in range(n)]
    outs = run_units("jxverif.props.C07", "worker", chunks + [("quick", 0, 3, c, []) for c in CANARIES])
    known_hits = []
    for o in outs[:len(chunks)]:
        if o[0] != "ok" or o[1]["error"]:
            ck.error(str(o[1] if o[0] != "ok" else o[1]["error"])[:800])
            continue
        o = o[1]
        known_hits += o["known"]
        for l in o.get("limits", [])[:3]:
            ck.error(f"engine limit (the real code raised only under the uninterpreted-step stubs, natively it runs): {l[:300]}")
        for r in o["results"]:
            ck.add(r)
            if r["status"] == "refuted":
                rp = native_f6() if "returned state" in r["name"] else {"reproduced": False}
                ck.violation(r["name"], {"solver": r["backend"], "solver_output": r["detail"], "kind": "c07", "replay_module": "jxverif.props.C07", "replay": rp}, reproduced=rp.get("reproduced", False))
    outs_i = run_units("jxverif.props.C07", "interpreted_worker", [(tier, None)])
    oi = outs_i[0]
    if oi[0] != "ok" or oi[1]["error"]:
        ck.error(str(oi[1] if oi[0] != "ok" else oi[1]["error"])[:900])
    else:
        for r in oi[1]["results"]:
            ck.add(r)
            if r["status"] == "refuted":
                ck.violation(r["name"], {"solver": r["backend"], "solver_output": r["detail"], "kind": "c07-interpreted"}, reproduced=False)
        ck.extra.setdefault("code_reached", {}).update({k: v for k, v in oi[1]["reached"].items() if k.startswith("jaxley")})
    if known_hits:
        rec = [k for k in ck.known if k["id"] == "F6"][0]
        rp = native_f6()
        ck.known_finding(rec, rec["what"] + (" [re-confirmed natively]" if rp.get("reproduced") else " [NOT reproduced natively this run]"))
        ck.extra["known_finding_obligations"] = [{"count": len(known_hits), "examples": [h[1] for h in known_hits[:5]], "replay": rp}]
    for can, oc in zip(CANARIES, outs[len(chunks):]):
        ref = oc[0] == "ok" and any(r["status"] != "proved" for r in oc[1]["results"])
        ck.canary(f"{can[0]}: {can[2][:50]!r} -> {can[3][:50]!r}", ref, oc)
    for f in ("jaxley.integrate.integrate", "jaxley.integrate.build_init_and_step_fn", "jaxley.integrate.add_stimuli", "jaxley.integrate.add_clamps",
              "jaxley.utils.jax_utils.nested_checkpoint_scan", "jaxley.utils.jax_utils._inner_nested_scan"):
        ck.add_function(f, "body discharged" if not ck.violations else "body NOT discharged")
    ck.extra["configurations"] = {"base_scenarios": n, "rule": "stimulus (static/data, one or several) x clamp (none/static/data) x sample counts; all splits n1+n2, one repeated split, all checkpoint layouts of depth <= 3 with product <= max(steps+2,6)"}
    ck.trusted = ["Module.step / get_all_parameters / get_all_states uninterpreted", "lax.scan = sequential loop, jax.checkpoint = identity"]
    return ck.finish()


def replay(p):
    return native_f6()
