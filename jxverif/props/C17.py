"""C17 - parameter transforms are bounded, monotone bijections."""
from __future__ import annotations

import numpy as np
import z3

from .. import discharge as D
from ..contracts import resolve
from ..core import Check, run_units
from ..sym import ApiMismatch, Ctx, Proxy, Runtime, Sym, SymArray, Unsupported, rv
from . import common

PID = "C17"
X_LO, X_HI = -10**6, 10**6
MOD = "jaxley.optimize.transforms"


def _mk(kind, lo, up):
    import jaxley.optimize.transforms as T
    if kind == "Sigmoid":
        return T.SigmoidTransform(lo, up)
    if kind == "Softplus":
        return T.SoftplusTransform(lo)
    if kind == "NegSoftplus":
        return T.NegSoftplusTransform(up)
    if kind == "Affine":
        t = object.__new__(T.AffineTransform)
        t.a, t.b = lo, up          # (scale, shift)
        return t
    raise KeyError(kind)


def _run(kind, method, x, lo, up):
    rt = Runtime()
    inst = _mk(kind, lo, up)
    px = Proxy(inst, rt)
    r = getattr(px, method)(x)
    return r, rt


def worker(arg):
    kind, tier, canary, known = arg
    out = {"target": f"{MOD}:{kind}Transform", "results": [], "error": "", "error_kind": "", "reached": {}, "api_calls": {}}
    undo = common.apply_canary(*canary) if canary else None
    try:
        Ctx.reset()
        lo, up = Sym.var("lower"), Sym.var("upper")
        x1, x2, y = Sym.var("x"), Sym.var("x2"), Sym.var("y")
        dom = [x1.e >= X_LO, x1.e <= X_HI, x2.e >= X_LO, x2.e <= X_HI]
        if kind == "Affine":
            bnd = [lo.e != 0, lo.e >= -1000, lo.e <= 1000]
        else:
            bnd = [lo.e < up.e]
        try:
            f1, rt = _run(kind, "forward", x1, lo, up)
            f2, _ = _run(kind, "forward", x2, lo, up)
            gy, rt2 = _run(kind, "inverse", y, lo, up)
            fg, _ = _run(kind, "forward", gy, lo, up)
            gf, _ = _run(kind, "inverse", f1, lo, up)
        except ApiMismatch as e:
            out["error"], out["error_kind"] = str(e), "api"
            return out
        except Unsupported as e:
            out["error"], out["error_kind"] = str(e), "unsupported"
            return out
        out["reached"] = {**rt.reached, **rt2.reached}
        out["api_calls"] = dict(Ctx.api_calls)
    finally:
        if undo:
            undo()
    defs = lambda s: [Ctx.defs[k][1] for k in sorted(s.d)]
    T = f"optimize.transforms.{kind}Transform"
    obls = []
    inside = {"Sigmoid": [y.e > lo.e, y.e < up.e], "Softplus": [y.e > lo.e], "NegSoftplus": [y.e < up.e], "Affine": []}[kind]
    hy = dom + bnd
    for k in sorted(f1.d):
        obls.append((f"{T}.forward:defined#{k}", hy, Ctx.defs[k][1]))
    if kind == "Sigmoid":
        obls.append((f"{T}.forward:within declared bounds", hy + defs(f1), z3.And(f1.e >= lo.e, f1.e <= up.e)))
    elif kind == "Softplus":
        obls.append((f"{T}.forward:within declared bounds", hy + defs(f1), f1.e >= lo.e))
    elif kind == "NegSoftplus":
        obls.append((f"{T}.forward:within declared bounds", hy + defs(f1), f1.e <= up.e))
    if kind == "Affine":
        obls.append((f"{T}.forward:strictly monotone", hy + [x1.e < x2.e], z3.If(lo.e > 0, f1.e < f2.e, f1.e > f2.e)))
    else:
        obls.append((f"{T}.forward:monotone", hy + defs(f1) + defs(f2) + [x1.e < x2.e], f1.e <= f2.e))
        obls.append((f"{T}.forward:strictly monotone (injective)", hy + defs(f1) + defs(f2) + [x1.e < x2.e], f1.e < f2.e))
    ydom = [y.e >= -10**6, y.e <= 10**6, lo.e >= -10**6, up.e <= 10**6] if kind != "Affine" else [y.e >= -10**6, y.e <= 10**6, up.e >= -10**6, up.e <= 10**6]
    for k in sorted(gy.d):
        obls.append((f"{T}.inverse:defined strictly inside the bounds#{k}", bnd + inside + ydom, Ctx.defs[k][1]))
    obls.append((f"{T}:forward(inverse(y)) == y strictly inside the bounds", bnd + inside + ydom + defs(fg), fg.e == y.e))
    obls.append((f"{T}:inverse(forward(x)) == x", hy + defs(gf), gf.e == x1.e))
    boxes = {"x": (-100, 100), "x2": (-100, 100), "y": (-100, 100), "lower": (-50, 50), "upper": (-50, 50)}
    for name, h, g in obls:
        r = D.prove(name, h, g, timeout_ms=common.budget(tier))
        if r.status == "unknown" and tier != "canary":
            w = D.witness_search(h, g, boxes, {"x": [20, -20, 21, -21, 25], "x2": [20, -20, 22, -22, 30], "y": [20, 21, 25]}, n=1500)
            if w is not None:
                r.status, r.backend, r.model = "refuted", "witness-search", {k: str(v) for k, v in w.items()}
                r.detail = "found by native evaluation with the true functions (obligation undecided by the solver)"
        r = common.apply_known(known, name, h, g, r, tier)
        out["results"].append(r.to_json())
        if tier == "canary" and r.status == "refuted":
            break
    return out


def compose_worker(arg):
    """ChainTransform / MaskedTransform / ParamTransform: composition from the component contracts.
    Components are *uninterpreted* strictly monotone bijections F_i with inverse G_i (that is exactly what the component
    contracts establish); the real Chain/Masked/ParamTransform code must compose them correctly."""
    tier = arg
    import jaxley.optimize.transforms as T
    out = {"target": f"{MOD}:ChainTransform/MaskedTransform/ParamTransform", "results": [], "error": "", "error_kind": "", "reached": {}, "api_calls": {}}
    R = z3.RealSort()

    class UFT(T.Transform):
        def __init__(self, i):
            self.F = z3.Function(f"F{i}", R, R)
            self.G = z3.Function(f"G{i}", R, R)
            self.DF = z3.Function(f"domF{i}", R, z3.BoolSort())
            self.DG = z3.Function(f"domG{i}", R, z3.BoolSort())

        # the component contracts are PARTIAL: forward/inverse are defined on a domain (inverse: strictly inside the
        # bounds; forward: where it does not overflow) - an uninterpreted predicate of the argument, carried as a
        # value-level definedness condition exactly like log/division in the kernels
        def forward(self, x):
            return common_ew(lambda s: Sym(self.F(s.e), d=s.d | {Ctx.new_def("component", self.DF(s.e), "argument in the domain of the component's forward")}), x)

        def inverse(self, y):
            return common_ew(lambda s: Sym(self.G(s.e), d=s.d | {Ctx.new_def("component", self.DG(s.e), "argument in the domain of the component's inverse")}), y)

    def common_ew(f, x):
        if isinstance(x, Sym):
            return f(x)
        o = np.empty(np.shape(x), dtype=object)
        for ix in np.ndindex(o.shape):
            o[ix] = f(x[ix])
        return o.view(SymArray)
    x = Sym.var("x")
    xs = z3.Real("xs")
    for depth in (1, 2, 3):
        comps = [UFT(i) for i in range(depth)]
        Ctx.reset()
        rt = Runtime()
        chain = Proxy(T.ChainTransform(comps), rt, wrap_children=False)
        f = chain.forward(x)
        want = x.e
        for c in comps:
            want = c.F(want)
        out["results"].append(D.prove(f"ChainTransform[{depth}].forward == F_n(...F_1(x))", [], f.e == want).to_json())
        g = chain.inverse(f)
        # component contracts: G_i(F_i(t)) == t for all t
        t = z3.Real("t")
        ax = [z3.ForAll([t], c.G(c.F(t)) == t) for c in comps]
        out["results"].append(D.prove(f"ChainTransform[{depth}]:inverse(forward(x)) == x from the component contracts", ax, g.e == x.e, quant_free=False).to_json())
        out["reached"].update(rt.reached)
    # masked: all masks of length 3
    import itertools
    for mask in itertools.product([False, True], repeat=3):
        Ctx.reset()
        rt = Runtime()
        comp = UFT(0)
        m = Proxy(T.MaskedTransform(np.asarray(mask), comp), rt, wrap_children=False)
        xv = SymArray(np.asarray([Sym.var(f"x{i}") for i in range(3)], dtype=object))
        f = m.forward(xv)
        ok = all(z3.simplify(f[i].e).eq(z3.simplify(comp.F(xv[i].e) if mask[i] else xv[i].e)) for i in range(3))
        g = m.inverse(f)
        okb = all(z3.simplify(g[i].e).eq(z3.simplify(comp.G(comp.F(xv[i].e)) if mask[i] else xv[i].e)) for i in range(3))
        out["results"].append({"name": f"MaskedTransform[{''.join('1' if b else '0' for b in mask)}]: transforms exactly the masked entries, both directions",
                               "status": "proved" if ok and okb else "refuted", "backend": "structural", "time_s": 0, "model": {}, "detail": ""})
        # identity OFF the mask for every finite input: the unmasked entries must not depend on the component at all,
        # not even through its domain (0 * NaN is NaN: an arithmetic blend instead of a select breaks this)
        gy = m.inverse(xv)
        okd = all((mask[i] or (not f[i].d and not gy[i].d)) for i in range(3))
        out["results"].append({"name": f"MaskedTransform[{''.join('1' if b else '0' for b in mask)}]: unmasked entries are defined for every input (no dependence on the component's domain)",
                               "status": "proved" if okd else "refuted", "backend": "structural", "time_s": 0, "model": {},
                               "detail": "" if okd else "an unmasked entry carries a definedness condition of the inner transform: outside the inner domain the result is NaN instead of the input"})
        out["reached"].update(rt.reached)
    # ParamTransform: every transform reaches exactly its own entry (tree_map modelled by its contract)
    Ctx.reset()
    rt = Runtime()
    tfs = [{"a": UFT(0)}, {"b": UFT(1), "c": UFT(2)}]
    params = [{"a": Sym.var("pa")}, {"b": Sym.var("pb"), "c": Sym.var("pc")}]
    pt = Proxy(T.ParamTransform(tfs), rt, wrap_children=False)
    fw = pt.forward(params)
    bw = pt.inverse(params)
    ok = all(z3.simplify(fw[i][k].e).eq(tfs[i][k].F(params[i][k].e)) and z3.simplify(bw[i][k].e).eq(tfs[i][k].G(params[i][k].e)) for i in range(2) for k in tfs[i])
    ok = ok and [sorted(d) for d in fw] == [["a"], ["b", "c"]]
    out["results"].append({"name": "ParamTransform.forward/inverse: entry [i][k] is tf_dict[i][k] applied to entry [i][k], nothing else",
                           "status": "proved" if ok else "refuted", "backend": "structural", "time_s": 0, "model": {}, "detail": ""})
    out["reached"].update(rt.reached)
    return out


def float_probe_worker(tier):
    """Bounded stand-in for what real arithmetic cannot see: float64 conditioning of the round trips.  The real transforms run
    natively (jax, x64) on a grid; wherever forward(x) is representable strictly inside the bounds (not saturated), the round
    trip must hold to 1e-6 relative.  Labelled bounded, never counted as proved."""
    import traceback
    out = {"results": [], "error": "", "evals": 0, "cases": 0}
    try:
        import jax
        jax.config.update("jax_enable_x64", True)
        import jax.numpy as jnp
        bad = []
        grid = [x for x in np.concatenate([np.linspace(-40, 40, 161), [-300.0, -100.0, 100.0, 300.0, 1e-9, -1e-9]])]
        for kind, lo, up in (("Sigmoid", 0.0, 1.0), ("Sigmoid", -3.0, 5.0), ("Softplus", 0.0, None), ("Softplus", 2.0, None), ("NegSoftplus", None, 0.0), ("NegSoftplus", None, -1.5), ("Affine", 2.0, -1.0)):
            t = _mk(kind, lo if lo is not None else 0.0, up if up is not None else 0.0) if kind != "Affine" else _mk(kind, lo, up)
            for x in grid:
                y = float(t.forward(x))
                out["evals"] += 1
                if not np.isfinite(y):
                    bad.append((kind, lo, up, x, "forward not finite"))
                    continue
                # representable strictly inside the bounds, with at least ~1e-9 relative resolution left
                if kind == "Sigmoid":
                    frac = (y - lo) / (up - lo)
                    inside = 1e-8 < frac < 1 - 1e-8       # beyond that the distance to the bound itself has < 1e-8 relative precision in float64
                elif kind == "Softplus":
                    inside = (y - lo) > 1e-300 and abs(y - lo) > 1e-7 * max(1.0, abs(lo)) or (lo == 0.0 and y > 1e-300)
                elif kind == "NegSoftplus":
                    inside = (up - y) > 1e-300 and abs(up - y) > 1e-7 * max(1.0, abs(up)) or (up == 0.0 and -y > 1e-300)
                else:
                    inside = True
                if not inside:
                    continue
                out["cases"] += 1
                xr = float(t.inverse(y))
                if not (abs(xr - x) <= 1e-6 * max(1.0, abs(x))):
                    bad.append((kind, lo, up, float(x), f"inverse(forward(x)) = {xr}"))
        out["results"].append({"name": "float64 probe (bounded):inverse(forward(x)) == x to 1e-6 wherever forward(x) is representable strictly inside the bounds [7 transforms x 167 grid points]",
                               "status": "proved" if not bad else "refuted", "backend": "bounded-evaluation", "time_s": 0.0, "model": {}, "detail": str(bad[:3])})
    except Exception as e:
        out["error"] = f"{type(e).__name__}: {e}\n{traceback.format_exc(limit=8)}"
    return out


KINDS = ["Sigmoid", "Softplus", "NegSoftplus", "Affine"]
CANARIES = [
    ("Sigmoid", (f"{MOD}:SigmoidTransform.inverse", "src", "(1.0 / x) - 1.0", "(1.0 / x) + 1.0")),
    ("Affine", (f"{MOD}:AffineTransform.inverse", "src", "(x - self.b) / self.a", "(x + self.b) / self.a")),
    ("Softplus", (f"{MOD}:SoftplusTransform.inverse", "src", "z + jnp.log(", "z - jnp.log(")),
    ("NegSoftplus", (f"{MOD}:SoftplusTransform.forward", "src", "+ self.lower", "- self.lower")),
]


def replay_transform(kind, r):
    from fractions import Fraction
    import jax
    jax.config.update("jax_enable_x64", True)
    m = {}
    for k, v in r.get("model", {}).items():
        try:
            m[k] = float(Fraction(v))
        except Exception:
            pass
    lo, up = m.get("lower", 0.0), m.get("upper", 1.0)
    if kind == "Affine":
        lo = lo or 1.0
    t = _mk(kind, lo, up)
    x, x2, y = m.get("x", 0.0), m.get("x2", 1.0), m.get("y", 0.5)
    info = {"kind": kind, "lower": lo, "upper": up, "x": x, "x2": x2, "y": y}
    name = r["name"]
    try:
        if "inverse(forward(x))" in name:
            got = float(t.inverse(t.forward(x)))
            info.update(got=got, want=x, reproduced=bool(not abs(got - x) <= 1e-6 * max(1, abs(x))))
        elif "forward(inverse(y))" in name:
            got = float(t.forward(t.inverse(y)))
            info.update(got=got, want=y, reproduced=bool(not abs(got - y) <= 1e-6 * max(1, abs(y))))
        elif "strictly monotone" in name:
            a, b = float(t.forward(min(x, x2))), float(t.forward(max(x, x2)))
            info.update(f_lo=a, f_hi=b, reproduced=bool(x != x2 and not (a < b) and kind != "Affine"))
        elif "monotone" in name:
            a, b = float(t.forward(min(x, x2))), float(t.forward(max(x, x2)))
            info.update(f_lo=a, f_hi=b, reproduced=bool(not a <= b))
        elif "bounds" in name:
            f = float(t.forward(x))
            info.update(forward=f, reproduced=bool((kind in ("Sigmoid", "Softplus") and f < lo) or (kind in ("Sigmoid", "NegSoftplus") and f > up)))
        else:
            f = float(t.forward(x))
            info.update(forward=f, reproduced=bool(f != f))
    except Exception as e:
        info.update(reproduced=True, reason=f"real code raised {type(e).__name__}: {e}")
    return info


def replay_masked(name):
    """native replay of a MaskedTransform obligation: inner Sigmoid(-2, 2) / Softplus(1), inputs outside the inner domain
    at every position, eagerly and under jit (mask closed over)"""
    import jax
    jax.config.update("jax_enable_x64", True)
    import jax.numpy as jnp
    import jaxley.optimize.transforms as T
    bits = name.split("[")[1].split("]")[0]
    mask = np.asarray([b == "1" for b in bits])
    info = {"mask": bits, "reproduced": False, "cases": []}
    for inner, val in ((T.SigmoidTransform(-2.0, 2.0), 5.0), (T.SoftplusTransform(1.0), 0.25)):
        m = T.MaskedTransform(jnp.asarray(mask), inner)
        y = jnp.full((len(bits),), val)
        for mode, fn in (("eager", m.inverse), ("jit", jax.jit(lambda a: m.inverse(a)))):
            try:
                got = np.asarray(fn(y), dtype=float)
            except Exception as e:
                info["cases"].append({"inner": type(inner).__name__, "mode": mode, "raised": f"{type(e).__name__}: {e}"})
                info["reproduced"] = True
                continue
            bad = [i for i in range(len(bits)) if not mask[i] and not got[i] == val]
            info["cases"].append({"inner": type(inner).__name__, "mode": mode, "input": val, "got": [repr(float(g)) for g in got], "unmasked entries changed": bad})
            if bad:
                info["reproduced"] = True
    return info


def replay(p):
    if p.get("kind_t") is None and str(p.get("obligation", "")).startswith("MaskedTransform["):
        return replay_masked(p["obligation"])
    return replay_transform(p["kind_t"], {"model": p.get("model", {}), "name": p["obligation"]})


def main(tier):
    ck = Check(PID, tier)
    args = [(k, tier, None, ck.known) for k in KINDS] + [(k, "canary", can, None) for k, can in CANARIES]
    outs = run_units("jxverif.props.C17", "worker", args)
    outs_c = run_units("jxverif.props.C17", "compose_worker", [tier])
    for (k, _, _, _), o in zip(args[:len(KINDS)], outs[:len(KINDS)]):
        _collect(ck, o, k)
    _collect(ck, outs_c[0], None)
    op = run_units("jxverif.props.C17", "float_probe_worker", [tier])[0]
    if op[0] != "ok" or op[1]["error"]:
        ck.error(str(op[1] if op[0] != "ok" else op[1]["error"])[:600])
    else:
        ck.bounded = {"evaluations": op[1]["evals"], "distinct_nontrivial": op[1]["cases"], "exhaustive": True,
                      "rule": "native float64 round trips of the real transforms on a fixed grid (161 points in [-40,40] plus extremes); a case counts when forward(x) is representable strictly inside the bounds"}
        for r in op[1]["results"]:
            if r["status"] == "refuted":
                ck.add(r)
                ck.violation(r["name"], {"solver": r["backend"], "solver_output": r["detail"], "kind": "c17-float"}, reproduced=True)
    for (k, can), o in zip(CANARIES, outs[len(KINDS):]):
        ref = o[0] == "ok" and any(r["status"] != "proved" for r in o[1]["results"])
        ck.canary(f"{can[0]}: {can[2]!r} -> {can[3]!r}", ref, o)
    ck.trusted = ["jax.numpy / jax.nn primitive models (exp, log, log1p, expm1, nn.sigmoid, nn.softplus, where)", "jax.tree_util.tree_map modelled by its contract (leafwise application over matching pytrees)", "z3 + exp/log axioms"]
    ck.assumptions += ["domain: x in [-1e6, 1e6], lower < upper (|bounds| <= 1e6 for the inverse direction); Affine: scale != 0",
                       "CustomTransform applies user functions verbatim (nothing to verify); identical behaviour under jit is JAX's contract",
                       "inverse(forward(x)) = x is also a consequence of strict monotonicity + forward(inverse(y)) = y; both directions are nevertheless discharged directly"]
    return ck.finish()


def _collect(ck, o, kind):
    if o[0] != "ok":
        ck.error(o[1])
        return
    o = o[1]
    t = o["target"]
    if o["error"]:
        ck.error(f"{t}: {o['error_kind']}: {o['error'][:300]}")
        return
    ok = True
    for r in o["results"]:
        if r["status"] == "known-finding":
            rec = [k for k in ck.known if k["id"] == r["model"].get("known_id")][0]
            rp = replay_transform(kind, r)
            ck.known_finding(rec, rec["what"] + (" [re-confirmed natively]" if rp.get("reproduced") else " [NOT reproduced natively this run]"))
            ck.extra.setdefault("known_finding_obligations", []).append({"name": r["name"], "detail": r["detail"], "witness": r["model"], "replay": rp})
            continue
        ck.add(r)
        if r["status"] == "refuted":
            ok = False
            rp = replay_transform(kind, r) if kind else (replay_masked(r["name"]) if r["name"].startswith("MaskedTransform[") else {"reproduced": False})
            ck.violation(r["name"], {"solver": r["backend"], "solver_output": r["detail"], "model": r["model"], "replay": rp, "kind": "c17",
                                     "replay_module": "jxverif.props.C17", "kind_t": kind}, reproduced=rp.get("reproduced", False))
        elif r["status"] != "proved":
            ok = False
    ck.add_function(t, "body discharged" if ok else "body NOT discharged", len(o["results"]))
    ck.extra.setdefault("code_reached", {}).update(o["reached"])
