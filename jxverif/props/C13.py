"""C13 - changing the number of compartments preserves the branch and its surroundings.

Pandas-bound: Tier B (bounded contract evaluation), level `exploration`.  Contract of set_ncomp(n) on branch b, evaluated
against a module BUILT DIRECTLY with n compartments in branch b (hand-built cells) resp. read with ncomp=n (SWC cells):
  tables   : .nodes equal in every column (length sum preserved, uniform electrical / channel properties, indices)
  frame    : rows of all other branches unchanged, comb_parents unchanged, branch membership of named groups unchanged
  solver   : _comp_edges, indexer arrays, ncomp_per_branch, cumsum_ncomp equal  => identical simulation with every voltage
             solver, because the solvers are functions of exactly these structures and the tables (C01 modularity)
plus a native one-step comparison on every backend as replay / cross-check.
"""
from __future__ import annotations

import copy
import itertools
import os
import traceback

import numpy as np

from ..core import Check, run_units
from .C08 import _res

PID = "C13"
SWC_DIR = "/repo/tests/swc_files"
SPEC = [  # per branch: radius, total length, capacitance, axial resistivity, channels (name -> {param: value}).
    # Every branch carries the same channel SET (set_ncomp refuses a branch that lacks a channel present elsewhere: the NaN
    # columns fail its uniformity test; such refusals are recorded, not counted) with different parameter values.
    dict(radius=2.0, L=40.0, cm=1.0, ra=5000.0, ch={"HH": {"HH_gNa": 0.2}, "Leak": {"Leak_gLeak": 1e-4}}),
    dict(radius=1.0, L=30.0, cm=2.0, ra=1000.0, ch={"HH": {"HH_gNa": 0.12, "HH_gK": 0.03}, "Leak": {"Leak_gLeak": 3e-4, "Leak_eLeak": -60.0}}),
    dict(radius=0.5, L=24.0, cm=1.5, ra=2000.0, ch={"HH": {"HH_gNa": 0.1}, "Leak": {"Leak_gLeak": 1e-4}}),
    dict(radius=1.5, L=60.0, cm=1.0, ra=5000.0, ch={"HH": {"HH_gLeak": 0.0005}, "Leak": {"Leak_eLeak": -65.0}}),
    dict(radius=0.8, L=12.0, cm=0.9, ra=1500.0, ch={"HH": {}, "Leak": {"Leak_gLeak": 2e-4}}),
]
PARENTS = [-1, 0, 0, 1, 1]


def build(ncomps, nb=5, v=None):
    """cell built DIRECTLY with ncomps[b] compartments in branch b"""
    import jax
    jax.config.update("jax_enable_x64", True)
    import jaxley as jx
    import jaxley.channels as CH
    branches = []
    for b in range(nb):
        s = SPEC[b]
        comp = jx.Compartment()
        comp.set("radius", s["radius"])
        comp.set("length", s["L"] / ncomps[b])
        comp.set("capacitance", s["cm"])
        comp.set("axial_resistivity", s["ra"])
        comp.set("v", -70.0 + 2 * b)
        for name, params in s["ch"].items():
            comp.insert(getattr(CH, name)())
            for k, val in params.items():
                comp.set(k, val)
        branches.append(jx.Branch(comp, ncomp=ncomps[b]))
    cell = jx.Cell(branches, parents=PARENTS[:nb])
    return cell


def tables_equal(a, b, cols_skip=()):
    bad = []
    if list(a.columns) != list(b.columns) and sorted(a.columns) != sorted(b.columns):
        bad.append(f"columns differ: {sorted(set(a.columns) ^ set(b.columns))}")
        return bad
    if len(a) != len(b):
        return [f"row count {len(a)} != {len(b)}"]
    for c in a.columns:
        if c in cols_skip:
            continue
        x, y = a[c].to_numpy(), b[c].to_numpy()
        try:
            ok = np.allclose(x.astype(float), y.astype(float), rtol=1e-12, atol=1e-12, equal_nan=True)
        except (TypeError, ValueError):
            ok = list(x) == list(y)
        if not ok:
            bad.append(f"column {c}: {x.tolist()[:8]} != {y.tolist()[:8]}")
        if str(a[c].dtype) != str(b[c].dtype):
            bad.append(f"dtype of {c}: {a[c].dtype} != {b[c].dtype}")
    return bad


def structures_equal(a, b):
    bad = []
    for attr in ("ncomp_per_branch", "cumsum_ncomp", "comb_parents", "_internal_node_inds", "_par_inds", "_child_inds", "_child_belongs_to_branchpoint", "_n_nodes"):
        if not np.array_equal(np.asarray(getattr(a, attr)), np.asarray(getattr(b, attr))):
            bad.append(f"{attr}: {np.asarray(getattr(a, attr)).tolist()} != {np.asarray(getattr(b, attr)).tolist()}")
    ea, eb = a._comp_edges.reset_index(drop=True), b._comp_edges.reset_index(drop=True)
    if not ea.equals(eb):
        bad.append("_comp_edges differ")
    ia, ib = a._solve_indexer, b._solve_indexer
    for attr in ("cumsum_ncomp", "remapped_node_indices", "root_inds", "branchpoint_group_inds"):
        if not np.array_equal(np.asarray(getattr(ia, attr)), np.asarray(getattr(ib, attr))):
            bad.append(f"indexer.{attr} differs")
    for attr in ("children_in_level", "parents_in_level"):
        la, lb = getattr(ia, attr), getattr(ib, attr)
        if len(la) != len(lb) or any(not np.array_equal(np.asarray(x), np.asarray(y)) for x, y in zip(la, lb)):
            bad.append(f"indexer.{attr} differs")
    return bad


def native_step(cell, dt=0.1):
    import jaxley as jx
    c = copy.deepcopy(cell)
    c.delete_recordings()
    c.record("v", verbose=False)
    out = {}
    for be in ("jaxley.thomas", "jaxley.stone", "jax.sparse"):
        try:
            out[be] = np.asarray(jx.integrate(c, delta_t=dt, t_max=3 * dt, voltage_solver=be))[:, -1]
        except Exception as e:
            out[be] = f"{type(e).__name__}: {str(e)[:60]}"
    return out


def worker(arg):
    part, tier, canary = arg
    from . import common
    undo = common.apply_canary(*canary) if canary else None
    try:
        return _worker(part, tier, canary is not None)
    finally:
        if undo:
            undo()


def _worker(part, tier, is_canary):
    out = {"results": [], "error": "", "evals": 0, "cases": 0, "witness": {}, "refusals": []}
    try:
        bad_tab, bad_frame, bad_struct, bad_groups, bad_sim = [], [], [], [], []
        if part == "hand":
            base = [2, 2, 3, 2, 4]
            ns = (1, 2, 3, 4) if tier == "quick" else (1, 2, 3, 4, 5, 8)
            seqs = [[(b, n)] for b in range(5) for n in ns if n != base[b]]
            seqs += [[(1, 3), (3, 1)], [(0, 4), (0, 2)], [(4, 2), (2, 1)], [(2, 2), (2, 5)]]
            if tier != "quick":
                seqs += [[(b1, n1), (b2, n2)] for (b1, n1), (b2, n2) in itertools.product([(0, 3), (1, 2), (3, 4)], [(2, 1), (4, 3), (1, 4)]) if b1 != b2]
            if is_canary:
                seqs = seqs[::3]
            for seq in seqs:
                cell = build(base)
                cell.branch(1).add_to_group("g1")
                cell.branch([2, 4]).add_to_group("g2")
                cell.branch(0).comp(0).add_to_group("g3")
                # groups that cover a branch only partially and WITHOUT its first compartment (seeded change C13_b)
                cell.branch(4).comp([2, 3]).add_to_group("g4")
                cell.branch(2).loc(1.0).add_to_group("g5")
                cell.branch(0).add_to_group("g6")
                cell.branch(3).comp(1).add_to_group("g6")
                want_nc = list(base)
                lab = "base=" + str(base) + ";" + ";".join(f"branch({b}).set_ncomp({n})" for b, n in seq)
                refused = False
                for b, n in seq:
                    try:
                        cell.branch(b).set_ncomp(n)
                    except (ValueError, AssertionError) as e:
                        out["refusals"].append(f"{lab}: {type(e).__name__}: {str(e)[:80]}")
                        refused = True
                        break
                    want_nc[b] = n
                if refused:
                    continue
                ref = build(want_nc)
                out["evals"] += 1
                out["cases"] += 1
                bt = tables_equal(cell.nodes, ref.nodes)
                if bt:
                    bad_tab.append(f"{lab}: {bt[:2]}")
                bs = structures_equal(cell, ref)
                if bs:
                    bad_struct.append(f"{lab}: {bs[:2]}")
                # groups: branch membership unchanged
                off = np.concatenate([[0], np.cumsum(want_nc)])
                br_of = lambda rows: sorted({int(np.searchsorted(off, r, side="right") - 1) for r in rows})
                want_groups = {"g1": [1], "g2": [2, 4], "g3": [0], "g4": [4], "g5": [2], "g6": [0, 3]}
                for gname, wb in want_groups.items():
                    gb = br_of(cell.groups[gname]) if len(cell.groups[gname]) else []
                    in_range = all(0 <= r < off[-1] for r in cell.groups[gname])
                    if gb != wb or not in_range:
                        bad_groups.append(f"{lab}: group {gname} now refers to branches {gb} (rows {list(map(int, cell.groups[gname]))}), was {wb}")
                        break
                if len(bad_sim) < 3 and out["evals"] % 6 == 1:
                    a, r = native_step(cell), native_step(ref)
                    for be in a:
                        if isinstance(a[be], str) != isinstance(r[be], str) or (not isinstance(a[be], str) and not np.allclose(a[be], r[be], atol=1e-9)):
                            bad_sim.append(f"{lab}: backend {be}: {a[be]} vs directly built {r[be]}")
        elif part == "swc":
            import jaxley as jx
            files = ["morph_minimal.swc", "morph_250.swc"] if tier == "quick" else ["morph_minimal.swc", "morph_250.swc", "morph.swc", "morph_single_point_soma.swc", "morph_250_single_point_soma.swc"]
            for fn in files:
                path = os.path.join(SWC_DIR, fn)
                refs0 = {n: jx.read_swc(path, ncomp=n, max_branch_len=2000.0, assign_groups=True) for n in (1, 2, 3, 4)}
                # the optional min_radius of set_ncomp must clip like read_swc(min_radius=...) does (seeded change C13_e): a floor
                # at the median radius of the 4-compartment build clips about half of the new compartments
                mfloor = float(np.median(refs0[4].nodes["radius"].to_numpy()))
                refs_m = {n: jx.read_swc(path, ncomp=n, max_branch_len=2000.0, assign_groups=True, min_radius=mfloor) for n in (1, 2, 3, 4)}
                nb = refs0[1].total_nbranches
                branches = list(range(min(nb, 4))) + ([nb - 1] if nb > 4 else [])
                for mr, refs, b in [(None, refs0, b) for b in branches] + [(mfloor, refs_m, b) for b in branches]:
                    for n in (2, 3, 4):
                        cell = copy.deepcopy(refs[1])
                        lab = f"{fn};branch({b}).set_ncomp({n}" + (")" if mr is None else f", min_radius={mr:.4g})")
                        try:
                            cell.branch(b).set_ncomp(n) if mr is None else cell.branch(b).set_ncomp(n, min_radius=mr)
                        except (ValueError, AssertionError) as e:
                            out["refusals"].append(f"{lab}: {type(e).__name__}: {str(e)[:80]}")
                            continue
                        out["evals"] += 1
                        out["cases"] += 1
                        rows = cell.nodes[cell.nodes["global_branch_index"] == b]
                        rrows = refs[n].nodes[refs[n].nodes["global_branch_index"] == b]
                        for col in ("radius", "length", "capacitance", "axial_resistivity"):
                            if not np.allclose(rows[col].to_numpy(), rrows[col].to_numpy(), rtol=1e-9, atol=1e-12):
                                bad_tab.append(f"{lab}: {col} {rows[col].to_numpy().tolist()} vs read_swc(ncomp={n}) {rrows[col].to_numpy().tolist()}")
                        others = cell.nodes[cell.nodes["global_branch_index"] != b]
                        o1 = refs[1].nodes[refs[1].nodes["global_branch_index"] != b]
                        for col in ("radius", "length", "capacitance", "axial_resistivity", "v"):
                            if not np.array_equal(others[col].to_numpy(), o1[col].to_numpy()):
                                bad_frame.append(f"{lab}: {col} of other branches changed")
                        if not np.array_equal(np.asarray(cell.comb_parents), np.asarray(refs[1].comb_parents)):
                            bad_frame.append(f"{lab}: comb_parents changed")
                        # type groups: branch membership unchanged
                        nc = np.asarray(cell.ncomp_per_branch)
                        off = np.concatenate([[0], np.cumsum(nc)])
                        for gname, rows_g in refs[1].groups.items():
                            wb = sorted({int(r) for r in rows_g})          # ncomp=1: row index == branch index
                            got = cell.groups[gname]
                            gb = sorted({int(np.searchsorted(off, r, side="right") - 1) for r in got if 0 <= r < off[-1]})
                            if gb != wb or any(not (0 <= r < off[-1]) for r in got):
                                bad_groups.append(f"{lab}: group {gname} covers branches {gb[:8]}, before {wb[:8]}")
                                break
        nm = f"set_ncomp[{part}]"
        out["results"].append(_res(f"{nm}:tables equal those of a module built directly with n compartments in that branch", not bad_tab, " | ".join(bad_tab[:2]), backend="bounded-evaluation"))
        out["results"].append(_res(f"{nm}:other branches and the connectivity unchanged", not bad_frame, " | ".join(bad_frame[:2]), backend="bounded-evaluation"))
        if part == "hand":
            out["results"].append(_res(f"{nm}:solver structures (_comp_edges, indexer, ncomp_per_branch, cumsum_ncomp) equal those of the directly built module", not bad_struct, " | ".join(bad_struct[:2]), backend="bounded-evaluation"))
            out["results"].append(_res(f"{nm}:native one-step comparison with the directly built module on all backends (sampled)", not bad_sim, " | ".join(bad_sim[:2]), backend="bounded-evaluation"))
        out["results"].append(_res(f"{nm}:branch membership of named groups unchanged", not bad_groups, " | ".join(bad_groups[:2]), backend="bounded-evaluation"))
        if bad_groups:
            out["witness"][f"{nm}:branch membership of named groups unchanged"] = {"groups_present": True}
    except Exception as e:
        out["error"] = f"{type(e).__name__}: {e}\n{traceback.format_exc(limit=8)}"
    return out


CANARIES = [
    ("hand", ("jaxley.modules.base:Module.set_ncomp", "src", "comp_lengths = np.sum(compartment_lengths) / ncomp", "comp_lengths = compartment_lengths[0]")),
    ("hand", ("jaxley.modules.base:Module.set_ncomp", "src", "average_row = self.nodes.mean(skipna=False)", "average_row = all_nodes.loc[start_idx : start_idx + num_previous_ncomp].mean(skipna=False)")),
]


def main(tier):
    ck = Check(PID, tier, level="exploration")
    parts = ["hand", "swc"]
    outs = run_units("jxverif.props.C13", "worker", [(p, tier, None) for p in parts] + [(p, "quick", c) for p, c in CANARIES])
    evals = cases = 0
    for o in outs[:len(parts)]:
        if o[0] != "ok" or o[1]["error"]:
            ck.error(str(o[1] if o[0] != "ok" else o[1]["error"])[:900])
            continue
        o = o[1]
        evals += o["evals"]
        cases += o["cases"]
        ck.refused += o["refusals"][:20]
        for r in o["results"]:
            if r["status"] == "refuted":
                kf = ck.match_known(r["name"], o["witness"].get(r["name"]))
                if kf:
                    ck.known_finding(kf, kf["what"] + " [re-confirmed natively]")
                    ck.extra.setdefault("known_finding_obligations", []).append({"name": r["name"], "detail": r["detail"][:400]})
                    continue
                ck.add(r)
                ck.violation(r["name"], {"solver": r["backend"], "solver_output": r["detail"], "kind": "c13"}, reproduced=True)
            else:
                ck.add(r)
    for (p, can), oc in zip(CANARIES, outs[len(parts):]):
        ref = oc[0] == "ok" and not oc[1]["error"] and any(r["status"] != "proved" for r in oc[1]["results"])
        ck.canary(f"{can[0]}: {can[2][:50]!r} -> {can[3][:50]!r}", ref, oc)
    ck.bounded = {"evaluations": evals, "distinct_nontrivial": cases, "exhaustive": False,
                  "rule": "hand-built 5-branch cell (parents [-1,0,0,1,1], base ncomp [2,2,3,2,4], per-branch distinct uniform radius/length/capacitance/axial resistivity/channels, six groups incl. partial-branch groups without the first compartment): every branch x n in {1,2,3,4} plus 4 two-call sequences (thorough: more n and 9 two-branch sequences); "
                          "SWC files of tests/swc_files: first 4 branches and the last x n in {2,3,4} against read_swc(ncomp=n). A case = one accepted (module, call sequence)"}
    for f in ("jaxley.modules.base.Module.set_ncomp", "jaxley.utils.cell_utils.build_radiuses_from_xyzr", "jaxley.modules.cell.Cell._init_morph_jax_spsolve", "jaxley.modules.cell.Cell._init_morph_jaxley_spsolve"):
        ck.add_function(f, "bounded")
    ck.trusted = ["identical tables + identical solver structures imply identical simulation (the simulation is a function of exactly these: C01 / C12)", "the directly built reference module is itself correct (C12 assembly contracts)"]
    ck.assumptions += ["level: exploration (bounded contract evaluation); set_ncomp may refuse (raise) - refusals are recorded, not counted"]
    return ck.finish(rule=ck.bounded["rule"])
