"""E9 driver: unbounded contracts of the level-schedule / index helpers (jxverif/astvc.py + jxverif/layout_contracts.py).

Called from the property drivers whose obligations rest on these helpers (C01).  For every contract:
  1. VCs are generated from the function's source in the current tree and discharged by z3 (backend `z3`, unbounded);
  2. the executable form of the contract is evaluated natively on all small inputs (backend `bounded-evaluation`; it cross-checks
     the encoding against CPython/numpy and supplies the failing input when a VC fails);
  3. a failing VC is a violation: with the native witness when one exists on the small inputs, otherwise `no-failing-input-found`
     (the replay file carries the obligation and z3's output);
  4. a function rewritten outside the generator's subset is decided by 2. alone and labelled bounded (NOTE line, never `proved`);
  5. vacuity: the requires are satisfiable (z3) and met by the native inputs; each canary (in-memory mutation of the source
     text) must lose at least one obligation.
"""
from __future__ import annotations

import importlib
import time
import traceback

import numpy as np

from .. import astvc
from ..layout_contracts import CONTRACTS


def _native(contract, nmax, limit=4000):
    """-> (evaluations, witness or None): run the REAL function on all small inputs of the contract"""
    modname, fname = contract.target.rsplit(".", 1)
    fn = getattr(importlib.import_module(modname), fname)
    n = 0
    for args in contract.py_inputs(nmax):
        if n >= limit:
            break
        n += 1
        try:
            res = fn(*[np.array(a) if isinstance(a, np.ndarray) else a for a in args])
            ok = bool(contract.py_ensures(args, res))
            got = repr(res)[:300]
        except Exception as e:          # the contract's requires hold for these inputs: an exception is a failure
            ok, got = False, f"raised {type(e).__name__}: {str(e)[:120]}"
        if not ok:
            return n, {"args": [np.asarray(a).tolist() for a in args], "got": got}
    return n, None


def run(ck, tier, only=None):
    nmax = 5 if tier == "quick" else 7
    total_eval = 0
    for c in CONTRACTS:
        if only and c.target not in only:
            continue
        short = c.target
        t0 = time.time()
        try:
            n_eval, witness = _native(c, nmax)
        except Exception as e:
            ck.error(f"layout: native evaluation of {short} crashed: {type(e).__name__}: {e}")
            continue
        total_eval += n_eval
        ck.add({"name": f"{short}:executable contract holds on all inputs with <= {nmax} branches ({n_eval} evaluations)",
                "status": "proved" if witness is None else "refuted", "backend": "bounded-evaluation", "time_s": round(time.time() - t0, 3), "model": {}, "detail": str(witness)})
        try:
            obls, req, src = astvc.generate(c)
        except astvc.Unsupported as e:
            ck.notes.append(f"{short}: source is outside the VC generator's subset ({str(e)[:100]}); decided by bounded evaluation of the executable contract only")
            ck.add_function(short, "bounded")
            if witness is not None:
                ck.violation(f"{short}:executable contract", {"kind": "layout", "replay_module": "jxverif.props.layout", "target": c.target, "witness": witness,
                                                               "solver": "bounded-evaluation", "solver_output": str(witness)}, reproduced=True)
            continue
        except Exception as e:
            ck.error(f"layout: VC generation for {short} crashed: {type(e).__name__}: {e}\n{traceback.format_exc(limit=4)}")
            continue
        if not obls:
            ck.error(f"layout: zero obligations generated for {short}")
            continue
        sat = astvc.requires_satisfiable(req)
        if sat == "unsat":
            ck.error(f"layout: the requires of {short} are contradictory (vacuous contract)")
            continue
        res = astvc.discharge(obls, 20000 if tier == "quick" else 60000)
        bad = [r for r in res if r["status"] == "refuted"]
        unk = [r for r in res if r["status"] == "unknown"]
        for r in res:
            ck.add(r)
        ck.add_function(short, "body discharged" if not bad and not unk else "body NOT discharged", len(res))
        ck.extra.setdefault("layout_contracts", {})[short] = {"obligations": len(res), "discharged": sum(r["status"] == "proved" for r in res),
                                                               "requires_satisfiable": sat, "native_cross_check_evaluations": n_eval, "serves": c.serves,
                                                               "unbounded": True}
        if bad or (unk and witness is not None):
            for r in (bad or unk)[:3]:
                if r["status"] == "unknown":
                    r["status"] = "refuted"
                ck.violation(r["name"], {"kind": "layout", "replay_module": "jxverif.props.layout", "target": c.target, "witness": witness,
                                         "solver": "z3", "solver_output": r["detail"] or "unsat core not available; negated VC satisfiable",
                                         "other_failed_obligations": [b["name"] for b in bad[:10]]}, reproduced=witness is not None)
        elif witness is not None:
            ck.violation(f"{short}:executable contract", {"kind": "layout", "replay_module": "jxverif.props.layout", "target": c.target, "witness": witness,
                                                           "solver": "bounded-evaluation", "solver_output": str(witness)}, reproduced=True)
        # canaries (vacuity / engine soundness)
        for old, new in c.canaries:
            label = f"layout {short.rsplit('.', 1)[1]}: {old!r} -> {new!r}"
            try:
                o2, _, _ = astvc.generate(c, mutate=(old, new))
                r2 = astvc.discharge(o2, 2000, stop_at_first_failure=True)
                ck.canary(label, any(r["status"] != "proved" for r in r2))
            except LookupError:
                ck.canaries_skipped.append(label)
            except astvc.Unsupported:
                ck.canaries_skipped.append(label)
    ck.trusted.append("E9 (astvc): the Python/numpy semantics listed at the top of jxverif/astvc.py (mathematical integers, arrays and lists as (z3 array, length), no aliasing, axioms of np.max / np.where(a == c)[0] / gather / zeros_like); z3's quantifier reasoning is only trusted for `unsat`")
    ck.assumptions.append("level-schedule helpers (compute_levels, compute_children_in_level, compute_parents_in_level, compute_children_indices): proved for parent vectors of ANY length from the source text by E9 under their requires (one root at index 0, parents precede children - the order Cell enforces)")
    return total_eval


def replay(p):
    from ..layout_contracts import CONTRACTS as CS
    c = [x for x in CS if x.target == p["target"]][0]
    w = p.get("witness")
    if not w:
        n, w2 = _native(c, 6)
        return {"reproduced": w2 is not None, "witness": w2, "evaluations": n, "note": "no witness was recorded; searched all inputs with <= 6 branches"}
    modname, fname = c.target.rsplit(".", 1)
    fn = getattr(importlib.import_module(modname), fname)
    args = [np.asarray(a) for a in w["args"]]
    try:
        res = fn(*[np.array(a) for a in args])
        ok = bool(c.py_ensures(args, res))
        got = repr(res)[:300]
    except Exception as e:
        ok, got = False, f"raised {type(e).__name__}: {e}"
    return {"reproduced": not ok, "args": w["args"], "got": got}
