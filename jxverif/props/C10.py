"""C10 - all ways of setting a parameter are equivalent and touch only what was selected.

Per module, view and key (enumerated), with ALL values symbolic:
  * set(key, val): the table diff is exactly the denoted rows where the key is defined (native, exact)
  * data_set(key, X) -> the REAL get_all_parameters / get_all_states: array[r] == X for the denoted rows, the table
    symbol key[r] elsewhere
  * make_trainable(key) + params -> params_to_pstate -> get_all_parameters / get_all_states: array[r] == X_g for the rows
    of group g, the table symbol elsewhere; the scatter writes no row outside the selection (index obligation: no
    negative / out-of-range index)
Hence the three routes hand identical arrays to the simulation.  write_trainables: the tables afterwards equal those arrays.
The denotation of a view is computed by an independent oracle from the construction numbers (branch b of a cell with
ncomp [1,2,3] = rows offsets[b]..), not from the view code (that is C11).
"""
from __future__ import annotations

import copy
import traceback

import numpy as np
import z3

from ..core import Check, run_units
from .C08 import _res

PID = "C10"
NCOMP = [1, 2, 3]
OFF = [0, 1, 3]
N = 6
_TPL = {}


def rows_of_branch(b):
    return list(range(OFF[b], OFF[b] + NCOMP[b]))


def template():
    if "cell" not in _TPL:
        import jax
        jax.config.update("jax_enable_x64", True)
        import jaxley as jx
        from jaxley.channels import HH, Leak
        from jaxley.connect import connect
        from jaxley.synapses import IonotropicSynapse, TestSynapse
        comp = jx.Compartment()
        cell = jx.Cell([jx.Branch(comp, ncomp=n) for n in NCOMP], parents=[-1, 0, 0])
        cell.branch(1).insert(HH())
        cell.branch(2).comp(0).insert(HH())
        cell.insert(Leak())
        net = jx.Network([cell, cell])
        connect(net.cell(0).branch(0).comp(0), net.cell(1).branch(1).comp(0), IonotropicSynapse())
        connect(net.cell(0).branch(0).comp(0), net.cell(1).branch(2).comp(1), TestSynapse())
        connect(net.cell(1).branch(0).comp(0), net.cell(0).branch(2).comp(2), IonotropicSynapse())
        connect(net.cell(1).branch(1).comp(1), net.cell(0).branch(0).comp(0), IonotropicSynapse())
        _TPL["cell"], _TPL["net"] = cell, net
    return copy.deepcopy(_TPL["cell"]), copy.deepcopy(_TPL["net"])


HH_ROWS = [1, 2, 3]


# (label, view function on the cell, denoted rows, groups created by make_trainable (list of row lists))
def node_views():
    V = []
    V.append(("cell", lambda c: c, list(range(N)), [list(range(N))]))
    V.append(("branch(0)", lambda c: c.branch(0), rows_of_branch(0), [rows_of_branch(0)]))
    V.append(("branch(2)", lambda c: c.branch(2), rows_of_branch(2), [rows_of_branch(2)]))
    V.append(("branch([0,1])", lambda c: c.branch([0, 1]), rows_of_branch(0) + rows_of_branch(1), [rows_of_branch(0), rows_of_branch(1)]))
    V.append(("branch('all')", lambda c: c.branch("all"), list(range(N)), [rows_of_branch(0), rows_of_branch(1), rows_of_branch(2)]))
    V.append(("branch(2).comp(1)", lambda c: c.branch(2).comp(1), [4], [[4]]))
    V.append(("branch(1).comp('all')", lambda c: c.branch(1).comp("all"), [1, 2], [[1], [2]]))
    V.append(("branch([1,2]).comp(0)", lambda c: c.branch([1, 2]).comp(0), [1, 3], [[1], [3]]))
    V.append(("HH", lambda c: c.HH, HH_ROWS, [HH_ROWS]))
    V.append(("group g", lambda c: c.g, [0, 4, 5], [[0, 4, 5]]))
    return V


NODE_KEYS = ["radius", "capacitance", "HH_gNa", "Leak_gLeak", "v", "HH_m"]


def defined_rows(key):
    return HH_ROWS if key.startswith("HH_") else list(range(N))


def worker(arg):
    tier, canary = arg
    from . import common
    undo = common.apply_canary(*canary) if canary else None
    try:
        return _worker(tier, canary is not None)
    finally:
        if undo:
            undo()


def _worker(tier, is_canary):
    from ..modsym import SymModule
    from ..sym import Ctx, IndexOutOfBounds, Sym, SymArray
    from jaxley.utils.cell_utils import params_to_pstate
    out = {"results": [], "error": "", "reached": {}, "witness": {}, "evals": 0, "distinct": 0}
    try:
        X = Sym(z3.Real("X"))

        def arrays(mod, pstate):
            Ctx.reset()
            sm = SymModule(mod)
            sm.prepare(pstate=pstate)
            out["reached"].update(sm.rt.reached)
            return sm

        def expect(sm, key, mapping, is_edge=False):
            """array of `key` must be mapping[r] on the mapped rows and the table symbol elsewhere"""
            arr_ = sm.params[key] if key in sm.params else sm.states[key]
            tab = sm.edges if is_edge else sm.nodes
            col = tab[key]
            rows = [i for i in tab.index if isinstance(col[i], Sym)] if is_edge else list(tab.index)
            if is_edge:
                # per-type arrays hold only the rows where the key is defined, in table order
                rows = [i for i in tab.index if isinstance(col[i], Sym)]
            bad = []
            for pos, r in enumerate(rows):
                got = arr_[pos]
                if r in mapping:
                    want = mapping[r]
                elif isinstance(col[r], Sym):
                    want = col[r]
                else:
                    # NaN cell: it must still be the poison symbol of that cell (nobody may have written it)
                    if not (z3.is_const(got.e) and str(got.e).startswith("NaN!")):
                        bad.append((r, str(got.e)[:40], "absent (NaN) cell must stay absent"))
                    continue
                if not got.e.eq(want.e):
                    bad.append((r, str(got.e)[:40], str(want.e)[:40]))
            return bad
        for vname, vf, rows, groups in node_views():
            for key in NODE_KEYS:
                sel = [r for r in rows if r in defined_rows(key)]
                lab = f"{vname}.{key}"
                # (i) set: exact table diff
                cell, _ = template()
                cell.branch(0).add_to_group("g")
                cell.branch(2).comp([1, 2]).add_to_group("g")
                before = cell.nodes.copy()
                try:
                    vf(cell).set(key, 123.456)
                except KeyError:
                    if not sel:
                        continue
                    raise
                after = cell.nodes
                changed = sorted(int(i) for i in after.index if not after.loc[i].equals(before.loc[i]))
                ok = changed == sorted(sel) and all(after.loc[r, key] == 123.456 for r in sel)
                out["evals"] += 1
                out["distinct"] += 1
                out["results"].append(_res(f"set:{lab} changes exactly the denoted rows where the key is defined", ok, f"changed {changed} want {sorted(sel)}", backend="bounded-evaluation"))
                if not sel:
                    continue
                # (ii) data_set -> real get_all_parameters / get_all_states
                cell, _ = template()
                cell.branch(0).add_to_group("g")
                cell.branch(2).comp([1, 2]).add_to_group("g")
                ps = vf(cell).data_set(key, 0.5, None)
                ps = [{"key": p["key"], "indices": p["indices"], "val": SymArray(np.asarray([X], dtype=object))} for p in ps]
                try:
                    sm = arrays(cell, ps)
                    bad = expect(sm, key, {r: X for r in sel})
                    out["results"].append(_res(f"data_set:{lab} reaches exactly the denoted rows (real get_all_parameters/get_all_states)", not bad, str(bad[:3]), backend="structural"))
                except IndexOutOfBounds as e:
                    out["results"].append(_res(f"data_set:{lab} scatter indices in range", False, str(e), backend="structural"))
                # (iii) make_trainable + params
                cell, _ = template()
                cell.branch(0).add_to_group("g")
                cell.branch(2).comp([1, 2]).add_to_group("g")
                vf(cell).make_trainable(key, verbose=False)
                inds = cell.indices_set_by_trainables
                G = [[r for r in g if r in defined_rows(key)] for g in groups]
                G = [g for g in G if g]
                nm = f"make_trainable:{lab}"
                if len(inds) != 1 or inds[0].shape[0] != len(G):
                    out["results"].append(_res(f"{nm} creates one parameter per group", False, f"{[np.asarray(i).shape for i in inds]} vs {len(G)} groups", backend="structural"))
                    continue
                Xg = [Sym(z3.Real(f"X{g}")) for g in range(len(G))]
                params = [{key: SymArray(np.asarray(Xg, dtype=object))}]
                ps = params_to_pstate(params, inds)
                raw = np.asarray(inds[0])
                neg = bool((raw < 0).any())
                out["results"].append(_res(f"{nm} index rows contain only members of their own group (no padding with foreign / negative indices)",
                                           not neg and all(set(map(int, raw[g])) == set(G[g]) for g in range(len(G))), f"indices {raw.tolist()} groups {G}", backend="structural"))
                if neg or not all(set(map(int, raw[g])) == set(G[g]) for g in range(len(G))):
                    out["witness"][f"{nm} index rows contain only members of their own group (no padding with foreign / negative indices)"] = {"group_sizes": [len(g) for g in G]}
                try:
                    sm = arrays(cell, ps)
                    mapping = {r: Xg[g] for g in range(len(G)) for r in G[g]}
                    bad = expect(sm, key, mapping)
                    out["results"].append(_res(f"{nm} every row of group g receives X_g, no row outside the selection changes (real scatter)", not bad, str(bad[:3]), backend="structural"))
                    if bad:
                        out["witness"][f"{nm} every row of group g receives X_g, no row outside the selection changes (real scatter)"] = {"group_sizes": [len(g) for g in G]}
                except IndexOutOfBounds as e:
                    out["results"].append(_res(f"{nm} scatter indices in range", False, str(e), backend="structural"))
                if is_canary and any(r["status"] == "refuted" for r in out["results"]):
                    return out
        # ---- edges (network with interleaved synapse types)
        edge_views = [("IonotropicSynapse", lambda n: n.IonotropicSynapse, [0, 2, 3]), ("IonotropicSynapse.edge(1)", lambda n: n.IonotropicSynapse.edge(1), [2]),
                      ("IonotropicSynapse.edge([0,2])", lambda n: n.IonotropicSynapse.edge([0, 2]), [0, 3]), ("TestSynapse.edge(0)", lambda n: n.TestSynapse.edge(0), [1])]
        for vname, vf, erows in edge_views:
            for key in (("IonotropicSynapse_gS", "IonotropicSynapse_s") if vname.startswith("Iono") else ("TestSynapse_gC", "TestSynapse_c")):
                lab = f"{vname}.{key}"
                _, net = template()
                before = net.edges.copy()
                vf(net).set(key, 0.777)
                changed = sorted(int(i) for i in net.edges.index if not net.edges.loc[i].equals(before.loc[i]))
                out["evals"] += 1
                out["distinct"] += 1
                out["results"].append(_res(f"set:{lab} changes exactly the selected edge rows", changed == sorted(erows), f"changed {changed} want {erows}", backend="bounded-evaluation"))
                _, net = template()
                ps = vf(net).data_set(key, 0.5, None)
                ps = [{"key": p["key"], "indices": p["indices"], "val": SymArray(np.asarray([X], dtype=object))} for p in ps]
                try:
                    sm = arrays(net, ps)
                    bad = expect(sm, key, {r: X for r in erows}, is_edge=True)
                    out["results"].append(_res(f"data_set:{lab} reaches exactly the selected synapses", not bad, str(bad[:3]), backend="structural"))
                    # using the same param_state twice must give the same arrays (data_set objects belong to the caller)
                    sm2 = arrays(net, ps)
                    bad2 = expect(sm2, key, {r: X for r in erows}, is_edge=True)
                    out["results"].append(_res(f"data_set:{lab} param_state is not modified by get_all_parameters (second use gives the same arrays)", not bad2, str(bad2[:3]), backend="structural"))
                except IndexOutOfBounds as e:
                    out["results"].append(_res(f"data_set:{lab} scatter indices in range", False, str(e), backend="structural"))
                _, net = template()
                vf(net).make_trainable(key, verbose=False)
                inds = net.indices_set_by_trainables
                Xg = [Sym(z3.Real(f"X{g}")) for g in range(np.asarray(inds[0]).shape[0])]
                ps = params_to_pstate([{key: SymArray(np.asarray(Xg, dtype=object))}], inds)
                try:
                    sm = arrays(net, ps)
                    raw = np.asarray(inds[0])
                    mapping = {int(r): Xg[g] for g in range(raw.shape[0]) for r in raw[g]}
                    ok_sel = sorted(mapping) == sorted(erows)
                    bad = expect(sm, key, mapping, is_edge=True)
                    out["results"].append(_res(f"make_trainable:{lab} reaches exactly the selected synapses", ok_sel and not bad, str(bad[:3]) + f" sel {sorted(mapping)} want {erows}", backend="structural"))
                except IndexOutOfBounds as e:
                    out["results"].append(_res(f"make_trainable:{lab} scatter indices in range", False, str(e), backend="structural"))
        # ---- sequences of make_trainable + write_trainables (native, exact)
        import jax.numpy as jnp
        cell, _ = template()
        cell.branch(1).make_trainable("HH_gNa", verbose=False)
        cell.branch("all").make_trainable("radius", verbose=False)
        cell.branch(2).comp(1).make_trainable("v", verbose=False)
        params = cell.get_parameters()
        vals = [{k: jnp.asarray(np.arange(len(v)) * 0.25 + 7.0 + 10 * j) for k, v in p.items()} for j, p in enumerate(params)]
        before = cell.nodes.copy()
        cell.write_trainables(vals)
        want = before.copy()
        want.loc[[1, 2], "HH_gNa"] = 7.0
        for g, b in enumerate(range(3)):
            want.loc[rows_of_branch(b), "radius"] = 17.0 + 0.25 * g
        want.loc[[4], "v"] = 27.0
        same = all(np.allclose(cell.nodes[c].to_numpy(dtype=float), want[c].to_numpy(dtype=float), equal_nan=True) for c in ("HH_gNa", "radius", "v", "length", "HH_gK"))
        out["evals"] += 1
        out["distinct"] += 1
        out["results"].append(_res("write_trainables:three make_trainable calls (channel parameter, per-branch radius with unequal groups, initial state) are written to exactly their rows",
                                   same, backend="bounded-evaluation"))
        if not same:
            out["witness"]["write_trainables:three make_trainable calls (channel parameter, per-branch radius with unequal groups, initial state) are written to exactly their rows"] = {"group_sizes": [1, 2, 3]}
        # ---- integrate's own init path (build_init_and_step_fn.init_fn, real code, Module stubbed by uninterpreted functions):
        # BOTH the parameters and the initial states are computed from the trainables AND the data_set entries - so a data_set
        # of an initial state (v, a gate, a synaptic state) reaches the simulation like set() does (seeded change C10_d)
        from .. import ufterm as U
        from ..ufterm import T
        from . import e4
        for label, ps in (("data_set of an initial state (v)", [{"key": "v", "val": np.asarray([[-55.0]]), "indices": np.asarray([[3]])}]),
                          ("data_set of a gate and of a parameter", [{"key": "HH_m", "val": np.asarray([[0.3]]), "indices": np.asarray([[0, 1]])},
                                                                     {"key": "radius", "val": np.asarray([[2.0]]), "indices": np.asarray([[4]])}])):
            sc = e4.Scenario([(1, 0, "v"), (0, 1, "HH_m")], T_len=0, t_max=0.05)
            o = e4.run_integrate(sc, param_state=ps, params=[])
            if "exception" in o:
                out["results"].append(_res(f"integrate init path:{label} accepted", False, o["exception"], backend="euf"))
                continue
            P = T("P", U._freeze(ps), sc.vs)
            S0 = T("S0", U._freeze(ps), P, sc.dt)
            states = U.spec_states(S0, sc.nsteps(), sc.ext_at, sc.dt, P, sc.solver, sc.vs)
            ok, d = e4.recs_match(o["recs"], sc, states)
            out["results"].append(_res(f"integrate init path:{label} - parameters and initial states are both computed from trainables + param_state (recorded terms start from S0(pstate, P(pstate)))", ok, d, backend="euf"))
            out["results"].append(_res(f"integrate init path:{label} - the caller's param_state list is not extended or rebound", len(ps) == (1 if "v)" in label else 2), backend="structural"))
        # ---- write_trainables after a HISTORY: the tables were converted to arrays earlier (to_jax / a simulation), then changed
        # with set() in rows that no trainable selects; what is written must be the current tables plus the trainables
        # (seeded change C10_c: a stale array cache)
        import jaxley as jx
        for how in ("to_jax", "integrate"):
            cell, _ = template()
            cell.branch(1).make_trainable("HH_gNa", verbose=False)
            cell.branch(0).make_trainable("radius", verbose=False)
            if how == "to_jax":
                cell.to_jax()
            else:
                cell.delete_recordings()
                cell.branch(0).comp(0).record("v", verbose=False)
                jx.integrate(cell, params=cell.get_parameters(), delta_t=0.025, t_max=0.05)
            cell.branch(2).set("HH_gNa", 0.05)          # rows outside every trainable
            cell.branch(2).set("radius", 3.5)
            cell.branch(1).set("length", 12.5)
            before = cell.nodes.copy()
            vals = [{"HH_gNa": jnp.asarray([0.33])}, {"radius": jnp.asarray([2.25])}]
            cell.write_trainables(vals)
            want = before.copy()
            want.loc[rows_of_branch(1), "HH_gNa"] = 0.33
            want.loc[rows_of_branch(0), "radius"] = 2.25
            diffs = [c for c in ("HH_gNa", "radius", "length", "HH_gK", "v") if not np.allclose(cell.nodes[c].to_numpy(dtype=float), want[c].to_numpy(dtype=float), equal_nan=True)]
            out["evals"] += 1
            out["distinct"] += 1
            out["results"].append(_res(f"write_trainables:after {how}() and later set() calls the tables hold the current values plus the trainables (no stale array cache)",
                                       not diffs, f"columns that differ: {diffs}; e.g. HH_gNa {cell.nodes['HH_gNa'].tolist()} want {want['HH_gNa'].tolist()}" if diffs else "", backend="bounded-evaluation"))
    except Exception as e:
        out["error"] = f"{type(e).__name__}: {e}\n{traceback.format_exc(limit=8)}"
    return out


def dependency_worker(arg):
    """Frame / dependency contract of the REAL Module.step (the modularity assumption behind "the three routes hand identical
    arrays to the simulation"): the new states and everything handed to the voltage solver depend on parameter and state VALUES
    only through the `params` / `states` arguments - never through the module's own tables or their array copies
    (`self.nodes`, `self.edges`, `self.jaxnodes`, `self.jaxedges`), which `set()` changes but `data_set` / trainables do not.
    Method: the tables hold the symbols key[row]; step() is called with FRESH symbols P!key[i] / S!key[i] in params / states;
    no table symbol may occur free in any output term."""
    tier, canary = arg
    from . import common
    from ..modsym import SymModule, free_vars
    from ..sym import Ctx, Sym, SymArray
    out = {"results": [], "error": "", "reached": {}, "witness": {}, "evals": 0, "distinct": 0}
    undo = common.apply_canary(*canary) if canary else None
    try:
        import jax
        jax.config.update("jax_enable_x64", True)
        import jaxley as jx
        import jaxley.channels as CH
        import jaxley.synapses as SY
        from jaxley.connect import connect
        comp = jx.Compartment()
        cell = jx.Cell([jx.Branch(comp, ncomp=n) for n in (1, 2)], parents=[-1, 0])
        for cls in (CH.HH, CH.Leak, CH.Na, CH.K, CH.Km, CH.CaL, CH.CaT):
            cell.insert(cls())
        net = jx.Network([cell, cell])
        connect(net.cell(0).branch(0).comp(0), net.cell(1).branch(1).comp(1), SY.IonotropicSynapse())
        connect(net.cell(1).branch(0).comp(0), net.cell(0).branch(1).comp(0), SY.TestSynapse())
        connect(net.cell(0).branch(1).comp(0), net.cell(1).branch(0).comp(0), SY.TanhRateSynapse())

        def fresh_like(d, pre):
            new = {}
            for k, v in d.items():
                a = np.asarray(v, dtype=object) if isinstance(v, SymArray) else None
                if a is not None and a.size and all(isinstance(x, Sym) for x in a.ravel()):
                    flat = [Sym(z3.Real(f"{pre}!{k}[{i}]")) for i in range(a.size)]
                    new[k] = SymArray(np.asarray(flat, dtype=object).reshape(a.shape))
                else:
                    new[k] = v
            return new

        def terms(x, acc):
            if isinstance(x, Sym):
                acc.append(x)
            elif isinstance(x, SymArray):
                for y in np.asarray(x, dtype=object).ravel():
                    if isinstance(y, Sym):
                        acc.append(y)
            elif isinstance(x, dict):
                for y in x.values():
                    terms(y, acc)
            elif isinstance(x, (list, tuple)):
                for y in x:
                    terms(y, acc)
            elif isinstance(x, np.ndarray) and x.dtype == object:
                for y in x.ravel():
                    terms(y, acc)
            return acc

        for label, mod in (("cell", cell), ("network", net)):
            for solver, vs in (("bwd_euler", "jaxley.thomas"), ("crank_nicolson", "jax.sparse"), ("fwd_euler", "jaxley.thomas")):
                if solver == "fwd_euler" and label != "cell":
                    continue
                Ctx.reset()
                sm = SymModule(mod)
                sm.prepare(voltage_solver=vs)
                table_syms = set()
                for tab in (sm.nodes, sm.edges):
                    for c in tab.columns:
                        for x in tab[c].to_numpy():
                            if isinstance(x, Sym):
                                table_syms |= free_vars(x)
                sm.params = fresh_like(sm.params, "P")
                S = fresh_like(sm.states, "S")
                I = SymArray(np.asarray([Sym(z3.Real("I0"))], dtype=object))
                new = sm.step(externals={"i": I}, external_inds={"i": np.asarray([1])}, solver=solver, voltage_solver=vs, states=S)
                out["reached"].update(sm.rt.reached)
                acc = terms(new, [])
                for kind, kw, H in sm.solver_calls:
                    terms(kw, acc)
                used = set()
                for t in acc:
                    used |= free_vars(t)
                leaked = sorted(used & table_syms)
                n_p = len([v for v in used if v.startswith("P!")])
                out["results"].append(_res(f"Module.step[{label},{solver},{vs}]:outputs depend on parameter and state values only through the params/states arguments (no value read from the module's tables or jaxnodes/jaxedges)",
                                           not leaked, f"table symbols in the outputs: {leaked[:8]}", backend="structural"))
                out["results"].append(_res(f"Module.step[{label},{solver},{vs}]:non-vacuous - the outputs mention {n_p} symbols of the params argument and {len(acc)} output terms were inspected",
                                           n_p > 10 and len(acc) > 10, backend="structural"))
    except Exception as e:
        out["error"] = f"{type(e).__name__}: {e}\n{traceback.format_exc(limit=8)}"
    finally:
        if undo:
            undo()
    return out


def native_dependency():
    """native replay: a kinetic parameter read inside update_states (vt of Na/K) given through data_set must simulate like set()"""
    try:
        import jax
        jax.config.update("jax_enable_x64", True)
        import jaxley as jx
        from jaxley.channels import K, Leak, Na
        res = {}
        for how in ("set", "data_set"):
            comp = jx.Compartment()
            for c in (Na(), K(), Leak()):
                comp.insert(c)
            comp.record("v", verbose=False)
            comp.stimulate(jx.step_current(0.1, 1.0, 0.05, 0.025, 2.0), verbose=False)
            if how == "set":
                comp.set("vt", -50.0)
                res[how] = np.asarray(jx.integrate(comp, delta_t=0.025))
            else:
                ps = comp.data_set("vt", -50.0, None)
                res[how] = np.asarray(jx.integrate(comp, delta_t=0.025, param_state=ps))
        d = float(np.max(np.abs(res["set"] - res["data_set"])))
        return {"input": "Na+K+Leak compartment, vt = -50 via set() vs data_set()", "max_abs_voltage_difference_mV": d, "reproduced": bool(d > 1e-9)}
    except Exception as e:
        return {"reproduced": False, "reason": f"{type(e).__name__}: {str(e)[:120]}"}


CANARIES_D = [
    ("jaxley.modules.base:Module._channel_currents", "src", "channel_params[p] = params[p][indices]", "channel_params[p] = self.jaxnodes[p][indices]"),
]

CANARIES = [
    ("jaxley.modules.base:Module.get_all_parameters", "src", "params[key] = params[key].at[inds].set(set_param[:, None])", "params[key] = params[key].at[inds].add(set_param[:, None])"),
    ("jaxley.modules.base:Module.data_set", "src", "\"indices\": np.atleast_2d(viewed_inds[not_nan]),", "\"indices\": np.atleast_2d(viewed_inds),"),
    ("jaxley.modules.base:Module.get_all_parameters", "src", "inds = synapse_inds[inds]", "parameter[\"indices\"] = inds = synapse_inds[inds]"),
]


def native_f2():
    import jax
    jax.config.update("jax_enable_x64", True)
    import jaxley as jx
    comp = jx.Compartment()
    cell = jx.Cell([jx.Branch(comp, ncomp=n) for n in NCOMP], parents=[-1, 0, 0])
    cell.branch([0, 1]).make_trainable("radius", verbose=False)
    import jax.numpy as jnp
    cell.to_jax()
    from jaxley.utils.cell_utils import params_to_pstate
    ps = params_to_pstate([{"radius": jnp.asarray([5.0, 6.0])}], cell.indices_set_by_trainables)
    r = np.asarray(cell.get_all_parameters(ps, "jaxley.thomas")["radius"])
    return {"radius_after": r.tolist(), "reproduced": bool(r[5] != 1.0), "reason": "compartment 5 (outside branch([0,1])) was overwritten" if r[5] != 1.0 else "compartment 5 untouched"}


def main(tier):
    ck = Check(PID, tier)
    outs = run_units("jxverif.props.C10", "worker", [(tier, None)] + [("quick", c) for c in CANARIES])
    o = outs[0]
    if o[0] != "ok" or o[1]["error"]:
        ck.error(str(o[1] if o[0] != "ok" else o[1]["error"])[:900])
    else:
        o = o[1]
        for r in o["results"]:
            if r["status"] == "refuted":
                kf = ck.match_known(r["name"], o["witness"].get(r["name"]))
                if kf:
                    rp = native_f2()
                    ck.known_finding(kf, kf["what"] + (" [re-confirmed natively]" if rp["reproduced"] else " [NOT reproduced natively this run]"))
                    continue
                ck.add(r)
                rp = native_f2() if "make_trainable" in r["name"] else {"reproduced": r["backend"] == "bounded-evaluation"}
                ck.violation(r["name"], {"solver": r["backend"], "solver_output": r["detail"], "kind": "c10", "replay_module": "jxverif.props.C10", "replay": rp}, reproduced=rp.get("reproduced", False))
            else:
                ck.add(r)
        ck.bounded = {"evaluations": o["evals"], "distinct_nontrivial": o["distinct"], "exhaustive": True,
                      "rule": "set() table diffs on 10 node views x 6 keys + 4 edge views x 2 keys + one write_trainables sequence; each (view,key) is one distinct case (counted here; they are also listed as obligations with backend bounded-evaluation)"}
        ck.extra["code_reached"] = {k: v for k, v in o["reached"].items() if k.startswith("jaxley")}
    for can, oc in zip(CANARIES, outs[1:]):
        ref = oc[0] == "ok" and not oc[1]["error"] and any(r["status"] != "proved" for r in oc[1]["results"])
        ck.canary(f"{can[0]}: {can[2][:50]!r} -> {can[3][:50]!r}", ref, oc)
    outs_d = run_units("jxverif.props.C10", "dependency_worker", [(tier, None)] + [("quick", c) for c in CANARIES_D])
    od = outs_d[0]
    if od[0] != "ok" or od[1]["error"]:
        ck.error(str(od[1] if od[0] != "ok" else od[1]["error"])[:900])
    else:
        rp = None
        for r in od[1]["results"]:
            ck.add(r)
            if r["status"] == "refuted":
                rp = rp or native_dependency()
                ck.violation(r["name"], {"solver": r["backend"], "solver_output": r["detail"], "kind": "c10", "replay_module": "jxverif.props.C10", "replay_fn": "replay_dependency", "replay": rp},
                             reproduced=rp.get("reproduced", False))
        ck.extra.setdefault("code_reached", {}).update({k: v for k, v in od[1]["reached"].items() if k.startswith("jaxley")})
        ck.add_function("jaxley.modules.base.Module.step (frame: reads values only from params/states)", "body discharged" if not any(r["status"] == "refuted" for r in od[1]["results"]) else "body NOT discharged",
                        len(od[1]["results"]))
    for can, oc in zip(CANARIES_D, outs_d[1:]):
        ref = oc[0] == "ok" and not oc[1]["error"] and any(r["status"] != "proved" for r in oc[1]["results"])
        ck.canary(f"{can[0]}: {can[2][:50]!r} -> {can[3][:50]!r}", ref, oc)
    for f in ("jaxley.modules.base.Module.get_all_parameters", "jaxley.modules.base.Module.get_all_states", "jaxley.modules.base.Module.to_jax", "jaxley.utils.cell_utils.params_to_pstate"):
        ck.add_function(f, "body discharged" if not ck.violations else "body NOT discharged")
    for f in ("jaxley.modules.base.Module.set", "jaxley.modules.base.Module.data_set", "jaxley.modules.base.Module.make_trainable", "jaxley.modules.base.Module.write_trainables"):
        ck.add_function(f, "bounded")
    ck.trusted = ["downstream simulation is a function of the arrays returned by get_all_parameters/get_all_states: for one Module.step this is now an obligation (frame / dependency contract on the real step, all channels and synapse types present); for the scan around it it is C06/C07",
                  "view denotations come from an independent oracle over the construction numbers; general view correctness is C11"]
    return ck.finish()


def replay(p):
    return native_f2()


def replay_dependency(p):
    return native_dependency()
