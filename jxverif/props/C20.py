"""C20 - connectivity builders create exactly the requested connections.

Tier B (bounded contract evaluation of the REAL builders; pandas-bound code is outside the reach of the symbolic runtime):
postconditions against an oracle computed from the construction numbers (cell k owns compartments off[k]..off[k+1]-1):
  fully_connect                : exactly one new synapse per (pre cell, post cell) pair
  connectivity_matrix_connect  : one new synapse for exactly the True entries
  sparse_connect               : only pre->post pairs between the given populations; never raises, for EVERY outcome of the
                                 sampling (np.random.binomial stubbed to return each possible count 0..n_pre*n_post, several seeds)
  all                          : pre site = first compartment of the pre cell, post site inside the intended post cell
Tier P lemma (unbounded, z3 integer arithmetic): the index layout used by fully_connect - position m of the edge list pairs
pre cell m div Q with post cell layout(m) - is a bijection onto [0,P) x [0,Q) for ALL population sizes P, Q >= 1.  The layout
formula is the hand-stated contract of numpy's reshape(order='F')/ravel, cross-checked against the real code for all P,Q<=5.
"""
from __future__ import annotations

import itertools
import traceback

import numpy as np
import z3

from ..core import Check, run_units
from .C08 import _res

PID = "C20"
_TPL = {}


def make_net(n):
    """n cells alternating between 2 compartments (one branch) and 3 compartments (two branches 1+2)"""
    import jax
    jax.config.update("jax_enable_x64", True)
    import jaxley as jx
    key = n
    if key not in _TPL:
        comp = jx.Compartment()
        a = jx.Cell([jx.Branch(comp, ncomp=2)], parents=[-1])
        b = jx.Cell([jx.Branch(comp, ncomp=1), jx.Branch(comp, ncomp=2)], parents=[-1, 0])
        _TPL[key] = jx.Network([a if k % 2 == 0 else b for k in range(n)])
    import copy
    net = copy.deepcopy(_TPL[key])
    sizes = [2 if k % 2 == 0 else 3 for k in range(n)]
    off = np.concatenate([[0], np.cumsum(sizes)])
    return net, off


def cell_of(comp, off):
    return int(np.searchsorted(off, comp, side="right") - 1)


def check_edges(net, off, pre_cells, post_cells, n_before=0):
    """-> (list of (pre cell, post cell), problems)"""
    e = net.edges.iloc[n_before:]
    pairs, problems = [], []
    for _, row in e.iterrows():
        p, q = int(row["pre_global_comp_index"]), int(row["post_global_comp_index"])
        cp, cq = cell_of(p, off), cell_of(q, off)
        if p != off[cp]:
            problems.append(f"pre site {p} is not the first compartment of cell {cp}")
        if cp not in pre_cells:
            problems.append(f"pre cell {cp} not in the pre population {pre_cells}")
        if cq not in post_cells:
            problems.append(f"post cell {cq} not in the post population {post_cells}")
        pairs.append((cp, cq))
    return pairs, problems


def populations(n):
    cells = list(range(n))
    out = []
    for a in range(1, n + 1):
        for pre in itertools.combinations(cells, a):
            for b in range(1, n + 1):
                for post in itertools.combinations(cells, b):
                    out.append((list(pre), list(post)))
    return out


def worker(arg):
    kind, tier, canary = arg
    from . import common
    undo = common.apply_canary(*canary) if canary else None
    try:
        return _worker(kind, tier, canary is not None)
    finally:
        if undo:
            undo()


def _worker(kind, tier, is_canary):
    import jaxley as jx
    from jaxley.connect import connectivity_matrix_connect, fully_connect, sparse_connect
    from jaxley.synapses import IonotropicSynapse, TestSynapse
    out = {"results": [], "error": "", "evals": 0, "cases": set(), "witness": {}}
    n = 4
    try:
        pops = populations(n)
        if tier == "quick":
            pops = [p for p in pops if len(p[0]) <= 3 and len(p[1]) <= 3][::7] + [p for p in pops if len(p[0]) == 4 or len(p[1]) == 4][::6]
        if is_canary:
            pops = pops[::7]
        if kind == "fully":
            bad = {}
            for pre, post in pops:
                net, off = make_net(n)
                np.random.seed(len(pre) * 7 + len(post))
                try:
                    fully_connect(net.cell(pre), net.cell(post), IonotropicSynapse())
                except Exception as e:
                    bad.setdefault("raises", []).append((pre, post, f"{type(e).__name__}: {str(e)[:60]}"))
                    continue
                pairs, problems = check_edges(net, off, pre, post)
                out["evals"] += 1
                out["cases"].add(("fully", len(pre), len(post), tuple(pre), tuple(post)))
                want = sorted((p, q) for p in pre for q in post)
                if sorted(pairs) != want:
                    bad.setdefault("pairs", []).append((pre, post, sorted(pairs)))
                    out["witness"]["fully_connect:exactly one synapse for every (pre cell, post cell) pair"] = {"n_pre": len(pre), "n_post": len(post)}
                if problems:
                    bad.setdefault("sites", []).append((pre, post, problems[:2]))
            out["results"].append(_res("fully_connect:exactly one synapse for every (pre cell, post cell) pair", "pairs" not in bad and "raises" not in bad,
                                       str((bad.get("pairs") or bad.get("raises") or [])[:2]), backend="bounded-evaluation"))
            out["results"].append(_res("fully_connect:pre site = first compartment of the pre cell, post site inside the intended post cell", "sites" not in bad, str(bad.get("sites", [])[:2]), backend="bounded-evaluation"))
        elif kind == "matrix":
            bad = {}
            for pre, post in pops:
                mats = list(itertools.product([False, True], repeat=len(pre) * len(post)))
                lim, k_ = (16, 6) if tier == "quick" else (64, 14)
                if len(mats) > lim:
                    rng = np.random.default_rng(len(pre) * 11 + len(post))
                    mats = [mats[0], mats[-1]] + [mats[i] for i in rng.choice(len(mats), k_, replace=False)]
                if is_canary:
                    mats = mats[:8]
                for m in mats:
                    M = np.asarray(m, dtype=bool).reshape(len(pre), len(post))
                    net, off = make_net(n)
                    np.random.seed(int(M.sum()) + 3)
                    try:
                        connectivity_matrix_connect(net.cell(pre), net.cell(post), TestSynapse(), M)
                    except Exception as e:
                        bad.setdefault("raises", []).append((pre, post, M.astype(int).tolist(), f"{type(e).__name__}: {str(e)[:60]}"))
                        out["witness"]["connectivity_matrix_connect:never raises on a boolean matrix of the right shape"] = {"n_true": int(M.sum())}
                        continue
                    pairs, problems = check_edges(net, off, pre, post)
                    out["evals"] += 1
                    out["cases"].add(("matrix", tuple(pre), tuple(post), m))
                    want = sorted((pre[i], post[j]) for i in range(len(pre)) for j in range(len(post)) if M[i, j])
                    if sorted(pairs) != want:
                        bad.setdefault("pairs", []).append((pre, post, M.astype(int).tolist(), sorted(pairs)))
                    if problems:
                        bad.setdefault("sites", []).append((pre, post, problems[:2]))
            out["results"].append(_res("connectivity_matrix_connect:one synapse for exactly the True entries", "pairs" not in bad, str(bad.get("pairs", [])[:2]), backend="bounded-evaluation"))
            out["results"].append(_res("connectivity_matrix_connect:never raises on a boolean matrix of the right shape", "raises" not in bad, str(bad.get("raises", [])[:2]), backend="bounded-evaluation"))
            out["results"].append(_res("connectivity_matrix_connect:pre site = first compartment of the pre cell, post site inside the intended post cell", "sites" not in bad, str(bad.get("sites", [])[:2]), backend="bounded-evaluation"))
        elif kind == "sparse":
            bad = {}
            real_binomial = np.random.binomial
            try:
                for pre, post in pops[::2]:
                    for k in range(0, len(pre) * len(post) + 1):
                        for seed in range(2 if tier == "quick" else 6):
                            net, off = make_net(n)
                            np.random.seed(seed * 100 + k)
                            np.random.binomial = lambda n_, p_, k=k: k            # every possible outcome of the draw
                            try:
                                sparse_connect(net.cell(pre), net.cell(post), IonotropicSynapse(), p=0.5)
                            except Exception as e:
                                bad.setdefault("raises", []).append((pre, post, k, f"{type(e).__name__}: {str(e)[:60]}"))
                                out["witness"]["sparse_connect:succeeds for every outcome of the sampling (0..n_pre*n_post drawn connections)"] = {"drawn": k}
                                continue
                            finally:
                                np.random.binomial = real_binomial
                            pairs, problems = check_edges(net, off, pre, post)
                            out["evals"] += 1
                            out["cases"].add(("sparse", tuple(pre), tuple(post), k, seed))
                            if len(pairs) != k:
                                bad.setdefault("count", []).append((pre, post, k, len(pairs)))
                            if problems:
                                bad.setdefault("sites", []).append((pre, post, k, problems[:2]))
            finally:
                np.random.binomial = real_binomial
            out["results"].append(_res("sparse_connect:succeeds for every outcome of the sampling (0..n_pre*n_post drawn connections)", "raises" not in bad, str(bad.get("raises", [])[:3]), backend="bounded-evaluation"))
            out["results"].append(_res("sparse_connect:creates exactly the drawn number of synapses", "count" not in bad, str(bad.get("count", [])[:3]), backend="bounded-evaluation"))
            out["results"].append(_res("sparse_connect:only pre->post pairs between the given populations, pre site = first compartment, post site inside the post cell", "sites" not in bad, str(bad.get("sites", [])[:2]), backend="bounded-evaluation"))
        elif kind == "layout":
            # which layout does the real code use?  Decide it by cross-checking candidate formulas against the real function.
            cands = {
                "post(m) = m mod Q": lambda m, P, Q: m % Q,
                "post(m) = ((m div P) + (m mod P)*Q) div P": lambda m, P, Q: ((m // P) + (m % P) * Q) // P,
            }
            agree = {k: True for k in cands}
            for P in range(1, 6):
                for Q in range(1, 6):
                    net, off = make_net_uniform(P + Q)
                    np.random.seed(0)
                    fully_connect(net.cell(list(range(P))), net.cell(list(range(P, P + Q))), IonotropicSynapse())
                    e = net.edges
                    got_pre = [int(x) // 2 for x in e["pre_global_comp_index"]]
                    got_post = [int(x) // 2 - P for x in e["post_global_comp_index"]]
                    for name, f in cands.items():
                        ok = len(e) == P * Q and got_pre == [m // Q for m in range(P * Q)] and got_post == [f(m, P, Q) for m in range(P * Q)]
                        agree[name] = agree[name] and ok
            used = [k for k, v in agree.items() if v]
            out["results"].append(_res("fully_connect:edge m pairs pre cell m div Q with post cell layout(m); the layout formula is identified by agreement with the real code for all P,Q<=5",
                                       len(used) >= 1, f"agreeing formulas: {used}", backend="bounded-evaluation"))
            out["evals"] += 25
            P, Q, m, m2, a, b = z3.Ints("P Q m m2 a b")
            dom = [P >= 1, Q >= 1, 0 <= m, m < P * Q, 0 <= m2, m2 < P * Q]
            pre = lambda k: k / Q
            forms = {"post(m) = m mod Q": lambda k: k % Q, "post(m) = ((m div P) + (m mod P)*Q) div P": lambda k: ((k / P) + (k % P) * Q) / P}
            for name in used[:1]:
                post = forms[name]
                for gname, hyps, goal in (
                        ("in range", dom, z3.And(0 <= pre(m), pre(m) < P, 0 <= post(m), post(m) < Q)),
                        ("injective", dom + [m != m2], z3.Not(z3.And(pre(m) == pre(m2), post(m) == post(m2)))),
                        ("surjective (witness m = a*Q + b)", [P >= 1, Q >= 1, 0 <= a, a < P, 0 <= b, b < Q], z3.And(0 <= a * Q + b, a * Q + b < P * Q, pre(a * Q + b) == a, post(a * Q + b) == b))):
                    s = z3.Solver()
                    s.set("timeout", 30000)
                    s.add(*hyps)
                    s.add(z3.Not(goal))
                    import time
                    t0 = time.time()
                    r = s.check()
                    res = {"name": f"lemma:fully_connect layout [{name}] is {gname} for ALL P, Q >= 1", "status": "proved" if r == z3.unsat else ("refuted" if r == z3.sat else "unknown"),
                           "backend": "z3", "time_s": round(time.time() - t0, 3), "model": {}, "detail": ""}
                    if r == z3.sat:
                        mo = s.model()
                        res["model"] = {str(d): str(mo[d]) for d in mo.decls()}
                        out["witness"][res["name"]] = {"n_pre": mo.eval(P).as_long(), "n_post": mo.eval(Q).as_long()}
                    out["results"].append(res)
        out["cases"] = len(out["cases"])
    except Exception as e:
        out["error"] = f"{type(e).__name__}: {e}\n{traceback.format_exc(limit=8)}"
        out["cases"] = 0
    return out


def make_net_uniform(n):
    import jax
    jax.config.update("jax_enable_x64", True)
    import jaxley as jx
    key = ("u", n)
    if key not in _TPL:
        comp = jx.Compartment()
        a = jx.Cell([jx.Branch(comp, ncomp=2)], parents=[-1])
        _TPL[key] = jx.Network([a for _ in range(n)])
    import copy
    return copy.deepcopy(_TPL[key]), np.arange(0, 2 * n + 1, 2)


CANARIES = [
    ("fully", ("jaxley.connect:fully_connect", "src", "pre_rows.index.repeat(num_post)", "pre_rows.index.repeat(num_pre)")),
    ("matrix", ("jaxley.connect:connectivity_matrix_connect", "src", "from_idx, to_idx = np.where(connectivity_matrix)", "from_idx, to_idx = np.where(~connectivity_matrix)")),
    ("sparse", ("jaxley.connect:sparse_connect", "src", "post_syn_neurons = np.random.choice(post_cell_inds, size=num_connections)", "post_syn_neurons = np.random.choice(pre_cell_inds, size=num_connections)")),
]


def main(tier):
    ck = Check(PID, tier, level="exploration")
    kinds = ["fully", "matrix", "sparse", "layout"]
    outs = run_units("jxverif.props.C20", "worker", [(k, tier, None) for k in kinds] + [(k, "quick", c) for k, c in CANARIES])
    evals = cases = 0
    for o in outs[:len(kinds)]:
        if o[0] != "ok" or o[1]["error"]:
            ck.error(str(o[1] if o[0] != "ok" else o[1]["error"])[:900])
            continue
        o = o[1]
        evals += o["evals"]
        cases += o["cases"]
        for r in o["results"]:
            if r["status"] == "refuted":
                kf = ck.match_known(r["name"], o["witness"].get(r["name"]))
                if kf:
                    ck.known_finding(kf)
                    continue
                ck.add(r)
                ck.violation(r["name"], {"solver": r["backend"], "solver_output": r["detail"], "model": r.get("model", {}), "kind": "c20"}, reproduced=r["backend"] == "bounded-evaluation")
            else:
                ck.add(r)
    for (k, can), oc in zip(CANARIES, outs[len(kinds):]):
        ref = oc[0] == "ok" and not oc[1]["error"] and any(r["status"] != "proved" for r in oc[1]["results"])
        ck.canary(f"{can[0]}: {can[2][:50]!r} -> {can[3][:50]!r}", ref, oc)
    ck.bounded = {"evaluations": evals, "distinct_nontrivial": cases, "exhaustive": tier != "quick",
                  "rule": "4-cell network with cells of 2 and 3 compartments; populations = non-empty subsets of the cells (quick: a fixed stride of them); fully_connect per population pair; "
                          "connectivity_matrix_connect for all boolean matrices up to 16 (quick) / 64 per pair (else all-False, all-True and 6 / 14 seeded); sparse_connect with np.random.binomial forced to every count 0..n_pre*n_post x seeds; "
                          "a case is distinct by (builder, pre population, post population, matrix / drawn count, seed)"}
    for f in ("jaxley.connect.fully_connect", "jaxley.connect.sparse_connect", "jaxley.connect.connectivity_matrix_connect", "jaxley.connect.connect", "jaxley.connect.sample_comp",
              "jaxley.modules.network.Network._append_multiple_synapses"):
        ck.add_function(f, "bounded")
    ck.trusted = ["numpy reshape(order='F') / ravel semantics as stated in the lemma's layout formula (cross-checked against the real code for all P,Q<=5)",
                  "pandas groupby.sample returns n rows per group in group order", "oracle: cell k owns the compartments off[k]..off[k+1]-1 by construction"]
    ck.assumptions += ["level: exploration - the builders are pandas-bound and are evaluated, not proved; only the layout lemma is an unbounded proof",
                       "post-synaptic sites are random: the contract constrains the cell they lie in, not the compartment"]
    return ck.finish(rule=ck.bounded["rule"])
