"""C11 - views select exactly the described compartments, in local or global scope.

Pandas-bound code: Tier B (bounded contract evaluation against an independent denotation oracle), level `exploration`.
The oracle knows the module only through its construction numbers (cells x branches x compartments) and implements the
property text: a chain of cell/branch/comp/loc/select/group/channel selections denotes a set of compartments; local indices
are the dense ranks within each parent among what is in view; the synapses in view are those with both ends in view.
Index forms: int, list, range, numpy array, slice (open / bounded / negative bounds), boolean mask, 'all'.
Tier P kernel: for ALL at in [0,1] the digitised compartment index of loc(at) lies in [0, ncomp-1] (z3).
"""
from __future__ import annotations

import copy
import itertools
import traceback

import numpy as np
import z3

from ..core import Check, run_units
from .C08 import _res

PID = "C11"
CELLS = [[2, 1, 3], [1, 2], [2]]          # compartments per branch, per cell
_TPL = {}


class Comp:
    __slots__ = ("g", "cell", "branch", "comp", "gbranch")

    def __init__(self, g, cell, branch, comp, gbranch):
        self.g, self.cell, self.branch, self.comp, self.gbranch = g, cell, branch, comp, gbranch


def universe():
    out, g, gb = [], 0, 0
    for ci, brs in enumerate(CELLS):
        for bi, n in enumerate(brs):
            for k in range(n):
                out.append(Comp(g, ci, bi, k, gb))
                g += 1
            gb += 1
    return out


U = universe()
NCELL, NBR, NCOMP = len(CELLS), sum(len(b) for b in CELLS), len(U)
EDGES = [(0, 7, "I"), (3, 4, "T"), (8, 2, "I"), (5, 5, "I"), (6, 10, "T"), (1, 2, "I")]      # (pre, post, type) global compartments


def template():
    if "net" not in _TPL:
        import jax
        jax.config.update("jax_enable_x64", True)
        import jaxley as jx
        from jaxley.channels import HH, Leak
        from jaxley.connect import connect
        from jaxley.synapses import IonotropicSynapse, TestSynapse
        comp = jx.Compartment()
        cells = []
        for brs in CELLS:
            par = [-1] + [0] * (len(brs) - 1)
            cells.append(jx.Cell([jx.Branch(comp, ncomp=n) for n in brs], parents=par))
        net = jx.Network(cells)
        for p, q, t in EDGES:
            connect(net.select(nodes=[p]), net.select(nodes=[q]), IonotropicSynapse() if t == "I" else TestSynapse())
        net.cell(0).branch(2).insert(HH())
        net.cell(1).insert(HH())
        net.cell([0, 2]).branch(0).add_to_group("grp")
        net.cell(1).branch(1).comp(1).add_to_group("grp")
        _TPL["net"] = net
    return copy.deepcopy(_TPL["net"])


HH_COMPS = [3, 4, 5, 6, 7, 8]
GRP_COMPS = [0, 1, 8, 9, 10]


# ---- oracle --------------------------------------------------------------------------------------------------------
def local_index(view, level, c):
    """dense rank of c's global index at `level` within its parent, among what is in view"""
    if level == "cell":
        keys = sorted({x.cell for x in view})
        return keys.index(c.cell)
    if level == "branch":
        keys = sorted({x.gbranch for x in view if x.cell == c.cell})
        return keys.index(c.gbranch)
    keys = sorted({x.g for x in view if x.gbranch == c.gbranch})
    return keys.index(c.g)


def global_index(level, c):
    return {"cell": c.cell, "branch": c.gbranch, "comp": c.g}[level]


def n_total(level):
    return {"cell": NCELL, "branch": NBR, "comp": NCOMP}[level]


def denote(view, level, idx, scope):
    """-> list of compartments selected, or None if the index form has no meaning here (outside the contract)"""
    out = []
    for c in view:
        if scope == "global":
            i = global_index(level, c)
            n = n_total(level)
            parent_n = n
        else:
            i = local_index(view, level, c)
            if level == "cell":
                parent_n = len({x.cell for x in view})
            elif level == "branch":
                parent_n = len({x.gbranch for x in view if x.cell == c.cell})
            else:
                parent_n = len({x.g for x in view if x.gbranch == c.gbranch})
        if isinstance(idx, str):
            sel = True
        elif isinstance(idx, slice):
            sel = i in range(parent_n)[idx]
        elif isinstance(idx, (int, np.integer)):
            if idx < 0:
                return None
            sel = i == idx
        else:
            arr = np.asarray(idx)
            if arr.dtype == bool:
                if scope == "global":
                    return None
                ns = {"cell": len({x.cell for x in view}), "branch": len({x.gbranch for x in view}), "comp": len(view)}
                if len(arr) != ns[level]:
                    return None
                # positions count the children at that level in view (jaxley: shape of the view)
                if level == "branch" and len({x.cell for x in view}) > 1:
                    return None          # positions would be ambiguous across several cells
                if level == "comp" and len({x.gbranch for x in view}) > 1:
                    return None
                sel = i < len(arr) and bool(arr[i])
            else:
                if (arr < 0).any():
                    return None
                sel = i in set(int(x) for x in arr)
        if sel:
            out.append(c)
    return out


def index_forms(level, tier):
    n = {"cell": 3, "branch": 3, "comp": 3}[level]
    F = [0, 1, [0, 1], range(1, 3), np.array([0, 2]), "all", slice(None), slice(1, None), slice(0, 2), slice(None, None, 2), slice(-1, None), slice(-2, None), slice(None, -1)]
    if tier != "quick":
        F += [2, [2, 0], slice(1, 3), slice(-3, -1)]
    return F


def fmt(idx):
    if isinstance(idx, np.ndarray):
        return "array" + str(idx.tolist())
    return repr(idx)


def is_negative_slice(idx):
    return isinstance(idx, slice) and any(isinstance(x, (int, np.integer)) and x < 0 for x in (idx.start, idx.stop))


def worker(arg):
    part, tier, canary = arg
    from . import common
    template()          # build the module with the unmodified code first
    undo = common.apply_canary(*canary) if canary else None
    try:
        return _worker(part, tier, canary is not None)
    finally:
        if undo:
            undo()


def _check_view(v, want, out, label, net):
    got = sorted(int(x) for x in v._nodes_in_view)
    exp = sorted(c.g for c in want)
    ok = got == exp
    if ok:
        # synapses among them
        ein = sorted(int(e) for e in v._edges_in_view)
        eexp = sorted(k for k, (p, q, t) in enumerate(EDGES) if p in exp and q in exp)
        if ein != eexp:
            return False, f"{label}: edges in view {ein} != both-ends-in-view {eexp}"
        # local indices are dense ranks
        for c in want:
            row = v.nodes.loc[c.g]
            li = (int(row["local_cell_index"]), int(row["local_branch_index"]), int(row["local_comp_index"]))
            wl = (local_index(want, "cell", c), local_index(want, "branch", c), local_index(want, "comp", c))
            if li != wl:
                return False, f"{label}: local indices of compartment {c.g} are {li}, dense ranks are {wl}"
        return True, ""
    return False, f"{label}: selected {got}, denotes {exp}"


def _worker(part, tier, is_canary):
    out = {"results": [], "error": "", "evals": 0, "cases": 0, "witness": {}, "refusals": 0}
    try:
        net = template()
        bad = []
        bad_neg = []
        levels = ["cell", "branch", "comp"]
        if part in ("chains_local", "chains_global", "chains_switch"):
            scope0 = "global" if part == "chains_global" else "local"
            forms = {l: index_forms(l, tier) for l in levels}
            stride = 1
            combos = []
            for d in (1, 2, 3):
                for start in range(0, 3 - d + 1):
                    lv = levels[start:start + d]
                    for idxs in itertools.product(*[forms[l] for l in lv]):
                        combos.append((lv, idxs))
            if tier == "quick":
                combos = [c for k, c in enumerate(combos) if len(c[0]) < 3 or k % 5 == 0]
            if is_canary:
                combos = combos[::3]
            for lv, idxs in combos:
                view_o = list(U)
                v = net.scope(scope0)
                label = f"net[{scope0}]"
                ok_contract = True
                scope = scope0
                try:
                    for depth, (l, idx) in enumerate(zip(lv, idxs)):
                        if part == "chains_switch" and depth == 1:
                            scope = "global"
                            v = v.scope("global")
                            label += ".scope('global')"
                        sel = denote(view_o, l, idx, scope)
                        label += f".{l}({fmt(idx)})"
                        if sel is None:
                            ok_contract = False
                            break
                        view_o = sel
                        if not view_o:
                            break
                        v = getattr(v, l)(idx)
                    if not ok_contract:
                        continue
                    if not view_o:
                        # empty denotation: jaxley refuses with "Nothing in view"
                        try:
                            getattr(v, l)(idx)
                            (bad_neg if any(is_negative_slice(i) for i in idxs) else bad).append(f"{label}: denotes nothing but a view was returned")
                        except (ValueError, AssertionError, KeyError, IndexError):
                            out["refusals"] += 1
                        continue
                    out["evals"] += 1
                    out["cases"] += 1
                    ok, d = _check_view(v, view_o, out, label, net)
                    if not ok:
                        (bad_neg if any(is_negative_slice(i) for i in idxs) else bad).append(d)
                except Exception as e:
                    (bad_neg if any(is_negative_slice(i) for i in idxs) else bad).append(f"{label}: raised {type(e).__name__}: {str(e)[:80]}")
            nm = f"views[{part}]:chain of cell/branch/comp selections selects exactly the denoted compartments, synapses among them, dense local indices"
            out["results"].append(_res(nm + " (index forms without negative slice bounds)", not bad, " | ".join(bad[:3]), backend="bounded-evaluation"))
            out["results"].append(_res(nm + " (slices with a negative bound)", not bad_neg, " | ".join(bad_neg[:3]), backend="bounded-evaluation"))
            if bad_neg:
                out["witness"][nm + " (slices with a negative bound)"] = {"negative_slice": True, "n": len(bad_neg)}
        elif part == "other":
            # groups, channels, select, loc, lazy indexing, iteration, boolean masks
            checks = []

            def chk(label, v, want_g):
                want = [c for c in U if c.g in want_g]
                out["evals"] += 1
                out["cases"] += 1
                ok, d = _check_view(v, want, out, label, net)
                if not ok:
                    bad.append(d)
            chk("net.grp", net.grp, GRP_COMPS)
            chk("net.HH", net.HH, HH_COMPS)
            chk("net.cell(0).HH", net.cell(0).HH, [3, 4, 5])
            chk("net.cell(1).grp", net.cell(1).grp, [8])
            chk("net.grp.branch(0)", net.grp.branch(0), [0, 1, 8, 9, 10])    # local rank 0 within each cell among the group's branches: cell0 b0, cell1 b1 (the only one in view), cell2 b0
            chk("net.select(nodes=[2,7,9])", net.select(nodes=[2, 7, 9]), [2, 7, 9])
            chk("net.cell(0).select(nodes=[1,4])", net.cell(0).select(nodes=[1, 4]), [1, 4])
            chk("net.select(nodes=slice(3,6))", net.select(nodes=slice(3, 6)), [3, 4, 5])
            chk("net.cell([0,2]).scope('global').comp(slice(3,None))", net.cell([0, 2]).scope("global").comp(slice(3, None)), [3, 4, 5, 9, 10])
            chk("net.cell(2).scope('global').comp(slice(9,11))", net.cell(2).scope("global").comp(slice(9, 11)), [9, 10])
            chk("net.cell([0,2]).select(nodes=[4,5,9,10])", net.cell([0, 2]).select(nodes=[4, 5, 9, 10]), [4, 5, 9, 10])
            # selections listed in NON-ASCENDING order denote the same set; local indices stay dense ranks by global index,
            # and the chain continues from them (seeded change C11_b: order-of-appearance counting)
            uns = [7, 2, 5, 0, 8, 10, 9, 4]
            chk(f"net.select(nodes={uns})", net.select(nodes=uns), uns)
            for l, i in (("comp", 0), ("comp", 1), ("branch", 0), ("branch", 1), ("cell", 1), ("cell", [0, 2])):
                vo = denote([c for c in U if c.g in uns], l, i, "local")
                chk(f"net.select(nodes={uns}).{l}({i})", getattr(net.select(nodes=uns), l)(i), [c.g for c in vo])
            vo = denote(denote([c for c in U if c.g in uns], "cell", 0, "local"), "comp", 0, "local")
            chk(f"net.select(nodes={uns}).cell(0).comp(0)", net.select(nodes=uns).cell(0).comp(0), [c.g for c in vo])
            n1 = template()
            n1.select(nodes=[5, 3, 10, 9, 1, 0]).add_to_group("unsorted")
            chk("group made from an unsorted selection", n1.unsorted, [0, 1, 3, 5, 9, 10])
            vo = denote([c for c in U if c.g in (0, 1, 3, 5, 9, 10)], "comp", 1, "local")
            chk("group made from an unsorted selection .comp(1)", n1.unsorted.comp(1), [c.g for c in vo])
            chk("net.cell(0).select(nodes=[5,1,3,0])", net.cell(0).select(nodes=[5, 1, 3, 0]), [0, 1, 3, 5])
            chk("net.cell([2,0]).branch([2,0]).comp([1,0])", net.cell([2, 0]).branch([2, 0]).comp([1, 0]), [c.g for c in denote(denote(denote(list(U), "cell", [2, 0], "local"), "branch", [2, 0], "local"), "comp", [1, 0], "local")])
            try:        # selecting nodes that are not in view is refused
                net.cell([0, 2]).select(nodes=slice(4, 11))
                bad.append("net.cell([0,2]).select(nodes=slice(4,11)) returned a view although nodes 6,7,8 are not in view")
            except (KeyError, ValueError, AssertionError, IndexError):
                out["refusals"] += 1
            chk("net.cell(0).branch(mask[F,T,T])", net.cell(0).branch(np.array([False, True, True])), [2, 3, 4, 5])
            chk("net.cell(mask[T,F,T])", net.cell(np.array([True, False, True])), [0, 1, 2, 3, 4, 5, 9, 10])
            chk("net.cell(1).branch(1).comp(mask[F,T])", net.cell(1).branch(1).comp(np.array([False, True])), [8])
            # loc: at in [0,1] -> compartment floor(at*ncomp) (clipped to ncomp-1)
            for at in (0.0, 0.2, 0.49, 0.51, 0.99, 1.0):
                want = []
                for gb in range(NBR):
                    comps = [c for c in U if c.gbranch == gb]
                    n = len(comps)
                    want.append(comps[min(int(at * n), n - 1)].g)
                chk(f"net.loc({at})", net.loc(at), want)
                w0 = [g for g in want if U[g].cell == 0 and U[g].branch == 2]
                chk(f"net.cell(0).branch(2).loc({at})", net.cell(0).branch(2).loc(at), w0)
            # loc is not a scope switch: a chain continued after loc() keeps the scope it had (seeded change C11_d)
            def loc_den(view_o, at):
                keep = []
                for gb in sorted({c.gbranch for c in view_o}):
                    comps = [c for c in U if c.gbranch == gb]        # loc digitises over the whole branch ...
                    tgt = comps[min(int(at * len(comps)), len(comps) - 1)].g
                    keep += [c for c in view_o if c.g == tgt]        # ... and keeps it if it is in view
                return keep
            def chk_lazy(label, mk, want_g):
                try:
                    v = mk()
                except Exception as e:
                    bad.append(f"{label}: raised {type(e).__name__}: {str(e)[:80]} although the chain denotes {sorted(want_g)}")
                    return
                chk(label, v, want_g)
            for at, l, i in ((0.0, "branch", 1), (1.0, "branch", 0), (0.0, "cell", [0, 2]), (1.0, "comp", 0), (0.51, "branch", [0, 1])):
                vo = denote(loc_den(list(U), at), l, i, "local")
                chk_lazy(f"net.loc({at}).{l}({i})", lambda at=at, l=l, i=i: getattr(net.loc(at), l)(i), [c.g for c in vo])
            vo = denote(loc_den([c for c in U if c.cell == 1], 1.0), "branch", 0, "local")
            chk_lazy("net.cell(1).loc(1.0).branch(0)", lambda: net.cell(1).loc(1.0).branch(0), [c.g for c in vo])
            vo = denote(loc_den([c for c in U if c.cell == 0], 0.0), "branch", 2, "local")
            chk_lazy("net.cell(0).loc(0.0).branch(2)", lambda: net.cell(0).loc(0.0).branch(2), [c.g for c in vo])
            vo = denote(loc_den(list(U), 0.0), "branch", 4, "global")
            chk_lazy("net.scope('global').loc(0.0).branch(4)", lambda: net.scope("global").loc(0.0).branch(4), [c.g for c in vo])
            # lazy indexing == method form
            for ix in ((0,), (1, 1), (0, 2, 1), (slice(None), 0), ([0, 2], 0, 0), (2, 0, slice(None))):
                a = net[ix if len(ix) > 1 else ix[0]]
                b = net
                for l, i in zip(levels, ix):
                    b = getattr(b, l)(i)
                out["evals"] += 1
                out["cases"] += 1
                if sorted(a._nodes_in_view) != sorted(b._nodes_in_view):
                    bad.append(f"net[{ix}] selects {sorted(a._nodes_in_view)}, method form {sorted(b._nodes_in_view)}")
            # iteration == method form, in order
            it = [sorted(int(x) for x in c._nodes_in_view) for c in net.cells]
            if it != [[c.g for c in U if c.cell == k] for k in range(NCELL)]:
                bad.append(f"iteration over net.cells yields {it}")
            it = [sorted(int(x) for x in b._nodes_in_view) for b in net.cell(0).branches]
            if it != [[c.g for c in U if c.cell == 0 and c.branch == k] for k in range(3)]:
                bad.append(f"iteration over net.cell(0).branches yields {it}")
            it = [sorted(int(x) for x in b._nodes_in_view) for cell in net for b in cell]
            if it != [[c.g for c in U if c.gbranch == k] for k in range(NBR)]:
                bad.append(f"nested iteration yields {it}")
            # iteration in GLOBAL scope over views that do not start at global index 0 or are not contiguous: the sub-views are
            # those of the method form for the global indices present, in ascending order (seeded change C11_g)
            for xname, mk, xo, level in (("net.scope('global').cell(1).branches", lambda: net.scope("global").cell(1).branches, [c for c in U if c.cell == 1], "branch"),
                                         ("net.scope('global').cell([0,2]).cells", lambda: net.scope("global").cell([0, 2]).cells, [c for c in U if c.cell in (0, 2)], "cell"),
                                         ("net.scope('global').cell(2).comps", lambda: net.scope("global").cell(2).comps, [c for c in U if c.cell == 2], "comp"),
                                         ("net.scope('global').cell([0,2]).branches", lambda: net.scope("global").cell([0, 2]).branches, [c for c in U if c.cell in (0, 2)], "branch")):
                keyf = {"cell": lambda c: c.cell, "branch": lambda c: c.gbranch, "comp": lambda c: c.g}[level]
                want = [sorted(c.g for c in xo if keyf(c) == k) for k in sorted({keyf(c) for c in xo})]
                try:
                    it = [sorted(int(x) for x in v._nodes_in_view) for v in mk()]
                except Exception as e:
                    it = f"raised {type(e).__name__}: {str(e)[:60]}"
                out["evals"] += 1
                out["cases"] += 1
                if it != want:
                    bad.append(f"iteration over {xname} yields {it}, the method form for the global indices present gives {want}")
            try:
                # (`for cell in net.scope("global")` itself raises IndexError on the unchanged tree: a scope() view has no level
                # for __iter__; the explicit iterators are what the property names - observation recorded in DESIGN 9.4)
                it = [sorted(int(x) for x in b._nodes_in_view) for cell in net.scope("global").cells for b in cell.branches]
            except Exception as e:
                it = f"raised {type(e).__name__}: {str(e)[:60]}"
            if it != [[c.g for c in U if c.gbranch == k] for k in range(NBR)]:
                bad.append(f"nested iteration in global scope yields {it}")
            # iteration at a level == the method form for every index present at that level (in the current scope)
            for xname, X, xo in (("net.cell(1)", net.cell(1), [c for c in U if c.cell == 1]), ("net.cell(0)", net.cell(0), [c for c in U if c.cell == 0])):
                it = [sorted(int(x) for x in c._nodes_in_view) for c in X.comps]
                idxs = sorted({local_index(xo, "comp", c) for c in xo})
                want = [sorted(c.g for c in denote(xo, "comp", i, "local")) for i in idxs]
                if it != want:
                    bad.append(f"iteration over {xname}.comps yields {it}, method form comp(i) gives {want}")
            out["evals"] += 4
            out["cases"] += 4
            out["results"].append(_res("views[other]:groups, channel names, select, loc, boolean masks, lazy [] indexing and iteration agree with the denotation", not bad, " | ".join(bad[:3]), backend="bounded-evaluation"))
        elif part == "edge_chains":
            # chains that mix synapse-restricting steps (synapse type, edge(i), select(edges=...)) with compartment-restricting
            # steps, in both orders.  Oracle state = (compartments N, synapses E): a synapse step keeps E' = E /\ selected and the
            # end points of E' (within N); a compartment step keeps N' = denotation within N and E' = {e in E : both ends in N'}.
            # The views' edges AND the rows addressed by mutating calls (_edges_in_view) must be exactly E' (seeded change C11_e).
            KEY = {"I": ("IonotropicSynapse_gS", "IonotropicSynapse_s"), "T": ("TestSynapse_gC", "TestSynapse_c")}
            esteps = [("IonotropicSynapse", lambda v: v.IonotropicSynapse, lambda E: [e for e in E if EDGES[e][2] == "I"]),
                      ("TestSynapse", lambda v: v.TestSynapse, lambda E: [e for e in E if EDGES[e][2] == "T"]),
                      ("scope('global').edge(0).scope('local')", lambda v: v.scope("global").edge(0).scope("local"), lambda E: [e for e in E if e == 0]),
                      ("scope('global').edge([1,2,5]).scope('local')", lambda v: v.scope("global").edge([1, 2, 5]).scope("local"), lambda E: [e for e in E if e in (1, 2, 5)]),
                      ("select(edges=[0,3,5])", lambda v: v.select(edges=[0, 3, 5]), lambda E: [e for e in E if e in (0, 3, 5)]),
                      ("select(edges=[5,1,2])", lambda v: v.select(edges=[5, 1, 2]), lambda E: [e for e in E if e in (5, 1, 2)])]
            SELECTS = [st[2] for st in esteps if st[0].startswith("select(edges=")]
            nsteps = [[("cell", 0)], [("cell", 1)], [("cell", [0, 1])], [("cell", [0, 2])], [("cell", "all")], [("cell", 0), ("branch", 0)], [("cell", 0), ("branch", [0, 2])],
                      [("branch", 0)], [("cell", [1, 2]), ("comp", 0)]]
            if tier == "quick":
                nsteps = nsteps[:7]

            def e_apply(N, E, f):
                if E is None:
                    return [], None
                E2 = f(E)
                if f in SELECTS and len(E2) != 3:
                    return [], None        # select(edges=...) of synapses that are not in view: refused

                ends = {EDGES[e][0] for e in E2} | {EDGES[e][1] for e in E2}
                return [c for c in N if c.g in ends], E2

            def n_apply(N, E, chain):
                if E is None:
                    return [], None
                for l, i in chain:
                    N = denote(N, l, i, "local")
                    if not N:
                        return [], []
                gs = {c.g for c in N}
                return N, [e for e in E if EDGES[e][0] in gs and EDGES[e][1] in gs]

            def check_edges(label, mk, N, E):
                out["evals"] += 1
                last = label.rsplit(".", 1)[-1]
                if last in ("IonotropicSynapse", "TestSynapse") and not E:
                    # a synapse-type name applied to a view that holds no synapse of that type: jaxley returns the view
                    # unchanged (as it does for a channel name that is absent from the view); the property lists channel names
                    # but not synapse-type names and does not say what an absent name denotes - outside this contract (DESIGN 9.4)
                    out["refusals"] += 1
                    return
                if last.startswith("select(edges=") and E is None:
                    try:
                        mk(net)
                        bad.append(f"{label}: returned a view although some of the listed synapses are not in view")
                    except (ValueError, AssertionError, KeyError, IndexError):
                        out["refusals"] += 1
                    return
                if not N:
                    # the property does not say whether an empty selection is refused or returned as an empty view: both are
                    # accepted, a view that addresses anything is not
                    try:
                        v = mk(net)
                        if len(v._edges_in_view) or (E == [] and len(v.edges.index)):
                            bad.append(f"{label}: denotes no synapse but the view addresses synapses {sorted(int(x) for x in v._edges_in_view)}")
                    except (ValueError, AssertionError, KeyError, IndexError):
                        out["refusals"] += 1
                    return
                out["cases"] += 1
                try:
                    v = mk(net)
                    gotN, gotE = sorted(int(x) for x in v._nodes_in_view), sorted(int(x) for x in v._edges_in_view)
                    shown = sorted(int(x) for x in v.edges.index)
                    if gotN != sorted(c.g for c in N):
                        bad.append(f"{label}: selected compartments {gotN}, denotes {sorted(c.g for c in N)}")
                        return
                    if gotE != sorted(E) or shown != sorted(E):
                        bad.append(f"{label}: synapses addressed by the view {gotE} (shown in .edges: {shown}), denotes {sorted(E)}")
                        return
                    for t in ("I", "T"):
                        rows = sorted(e for e in E if EDGES[e][2] == t)
                        if not rows:
                            continue
                        pkey, skey = KEY[t]
                        n0 = template()
                        before = n0.edges.copy()
                        mk(n0).set(pkey, 7.75)
                        ch = sorted(int(i) for i in n0.edges.index if not n0.edges.loc[i].equals(before.loc[i]))
                        if ch != rows:
                            bad.append(f"{label}.set({pkey}) changed synapse rows {ch}, view denotes {rows}")
                        if len({EDGES[e][2] for e in E}) > 1:
                            continue        # record() of a synaptic state through a view of mixed synapse types: what it should do is the open finding F5 (C08), not decided here
                        n0 = template()
                        mk(n0).record(skey, verbose=False)
                        rec = sorted(int(x) for x in n0.recordings.rec_index)
                        if rec != rows:
                            bad.append(f"{label}.record({skey}) records synapses {rec}, view denotes {rows}")
                except Exception as e:
                    bad.append(f"{label}: raised {type(e).__name__}: {str(e)[:80]} although the chain denotes compartments {sorted(c.g for c in N)} and synapses {sorted(E)}")

            def nmk(v, chain):
                for l, i in chain:
                    v = getattr(v, l)(i)
                return v
            for ename, ef, eo in esteps:
                N1, E1 = e_apply(list(U), list(range(len(EDGES))), eo)
                check_edges(f"net.{ename}", lambda n, ef=ef: ef(n), N1, E1)
                for chain in nsteps:
                    cname = ".".join(f"{l}({fmt(i)})" for l, i in chain)
                    # synapse step, then compartment steps
                    N2, E2 = n_apply(N1, E1, chain)
                    check_edges(f"net.{ename}.{cname}", lambda n, ef=ef, chain=chain: nmk(ef(n), chain), N2, E2)
                    # compartment steps, then synapse step
                    N3, E3 = n_apply(list(U), list(range(len(EDGES))), chain)
                    N4, E4 = e_apply(N3, E3, eo)
                    check_edges(f"net.{cname}.{ename}", lambda n, ef=ef, chain=chain: ef(nmk(n, chain)), N4, E4)
                    # synapse step, compartments, then a second synapse step
                    if ename in ("select(edges=[0,3,5])", "scope('global').edge([1,2,5]).scope('local')"):
                        N5, E5 = e_apply(N2, E2, esteps[0][2])
                        check_edges(f"net.{ename}.{cname}.IonotropicSynapse", lambda n, ef=ef, chain=chain: nmk(ef(n), chain).IonotropicSynapse, N5, E5)
            out["results"].append(_res("views[edge_chains]:chains mixing synapse-restricting and compartment-restricting steps address exactly the denoted compartments and synapses; set/record through them reach those synapse rows and no others",
                                       not bad, " | ".join(bad[:3]), backend="bounded-evaluation"))
        elif part == "mutation":
            # mutating calls through a view change those rows and no others
            import jax.numpy as jnp
            from jaxley.channels import K
            views = [("select(nodes=[8,2,5,0]).comp(0)", lambda n: n.select(nodes=[8, 2, 5, 0]).comp(0), [0, 2, 5, 8]), ("select(nodes=[7,4,3,6]).comp(1)", lambda n: n.select(nodes=[7, 4, 3, 6]).comp(1), [4]),
                     ("cell(1)", lambda n: n.cell(1), [6, 7, 8]), ("cell(0).branch([0,2])", lambda n: n.cell(0).branch([0, 2]), [0, 1, 3, 4, 5]),
                     ("cell([0,2]).branch(0).comp(1)", lambda n: n.cell([0, 2]).branch(0).comp(1), [1, 10]), ("scope('global').branch(4)", lambda n: n.scope("global").branch(4), [7, 8]),
                     ("grp", lambda n: n.grp, GRP_COMPS), ("cell(0).loc(0.9)", lambda n: n.cell(0).loc(0.9), [1, 2, 5])]
            for vname, vf, rows in views:
                n0 = template()
                before = n0.nodes.copy()
                vf(n0).set("radius", 3.3)
                ch = sorted(int(i) for i in n0.nodes.index if not n0.nodes.loc[i].equals(before.loc[i]))
                if ch != sorted(rows):
                    bad.append(f"{vname}.set changed rows {ch}, view denotes {sorted(rows)}")
                n0 = template()
                before = n0.nodes.copy()
                vf(n0).insert(K())
                flags = sorted(int(i) for i in n0.nodes.index[n0.nodes["K"].astype(bool)])
                other = [c for c in before.columns if not n0.nodes[c].equals(before[c])]
                if flags != sorted(rows) or other:
                    bad.append(f"{vname}.insert(K) flags {flags} want {sorted(rows)}; changed existing columns {other}")
                n0 = template()
                vf(n0).record("v", verbose=False)
                rec = sorted(int(x) for x in n0.recordings.rec_index)
                if rec != sorted(rows):
                    bad.append(f"{vname}.record rows {rec} want {sorted(rows)}")
                n0 = template()
                vf(n0).stimulate(jnp.ones(3), verbose=False)
                st = sorted(int(x) for x in n0.external_inds["i"])
                if st != sorted(rows):
                    bad.append(f"{vname}.stimulate targets {st} want {sorted(rows)}")
                n0 = template()
                vf(n0).clamp("v", jnp.ones(3), verbose=False)
                cl = sorted(int(x) for x in n0.external_inds["v"])
                if cl != sorted(rows):
                    bad.append(f"{vname}.clamp targets {cl} want {sorted(rows)}")
                n0 = template()
                vf(n0).add_to_group("newgrp")
                gr = sorted(int(x) for x in n0.groups["newgrp"])
                if gr != sorted(rows) or sorted(int(x) for x in n0.groups["grp"]) != GRP_COMPS:
                    bad.append(f"{vname}.add_to_group rows {gr} want {sorted(rows)}")
                n0 = template()
                n0.compute_xyz()
                xyz0 = [x.copy() for x in n0.xyzr]
                vf(n0).move(10.0, 0.0, 0.0)
                moved = sorted(k for k in range(NBR) if not np.allclose(n0.xyzr[k][:, :3], xyz0[k][:, :3], equal_nan=True))
                wantb = sorted({U[g].gbranch for g in rows})
                if moved != wantb:
                    bad.append(f"{vname}.move moved branches {moved} want {wantb}")
                out["evals"] += 7
                out["cases"] += 7
            # views HELD across other calls (created before the group existed / before other views wrote): a mutating call through a
            # stored view still changes exactly the view's rows and keeps what others added (seeded change C11_c)
            n0 = template()
            held = [n0.cell(1), n0.cell(0).branch(2), n0.cell(2)]
            n0.cell(0).branch(0).add_to_group("late")
            for h in held:
                h.add_to_group("late")
            want_late = sorted([0, 1] + [6, 7, 8] + [3, 4, 5] + [9, 10])
            got_late = sorted(int(x) for x in n0.groups["late"])
            if got_late != want_late:
                bad.append(f"add_to_group through views held since before the group existed: group rows {got_late}, union of the views {want_late}")
            n0 = template()
            cells_held = list(n0.cells)
            for c in cells_held:
                c.add_to_group("allc")
            if sorted(int(x) for x in n0.groups["allc"]) != list(range(NCOMP)):
                bad.append(f"add_to_group through list(net.cells): group rows {sorted(int(x) for x in n0.groups['allc'])}, want all compartments")
            n0 = template()
            hv = n0.cell(1)
            n0.cell(0).set("radius", 4.4)
            hv.set("radius", 5.5)
            rr = n0.nodes["radius"].tolist()
            if not (all(r == 4.4 for r in rr[0:6]) and all(r == 5.5 for r in rr[6:9])):
                bad.append(f"set through a held view after another view wrote: radius column {rr}")
            out["evals"] += 3
            out["cases"] += 3
            out["results"].append(_res("views[mutation]:set / insert / record / stimulate / clamp / add_to_group / move through a view change those rows and no others", not bad, " | ".join(bad[:3]), backend="bounded-evaluation"))
        elif part == "loc_kernel":
            # for ALL at in [0,1]: digitised index in [0, ncomp-1]  (np.digitize contract: number of edges <= at)
            import time
            for n in range(1, 9):
                at = z3.Real("at")
                edges = [z3.RealVal(k) * (1 + z3.RealVal("1/10000000000")) / n for k in range(n + 1)]      # np.linspace(0, 1 + 1e-10, n + 1)
                idx = z3.Sum([z3.If(at >= e, 1, 0) for e in edges]) - 1
                s = z3.Solver()
                s.add(at >= 0, at <= 1, z3.Not(z3.And(idx >= 0, idx <= n - 1)))
                t0 = time.time()
                r = s.check()
                out["results"].append({"name": f"Module.loc:for all at in [0,1] the digitised compartment index lies in [0, {n - 1}] (ncomp={n})", "status": "proved" if r == z3.unsat else "refuted",
                                       "backend": "z3", "time_s": round(time.time() - t0, 4), "model": {}, "detail": ""})
    except Exception as e:
        out["error"] = f"{type(e).__name__}: {e}\n{traceback.format_exc(limit=8)}"
    return out


PARTS = ["chains_local", "chains_global", "chains_switch", "other", "edge_chains", "mutation", "loc_kernel"]
CANARIES = [
    ("chains_global", ("jaxley.modules.base:Module._reformat_index", "src", "np.arange(len(self.base.nodes))[idx]", "np.arange(len(self.nodes))[idx]")),
    ("chains_local", ("jaxley.modules.base:Module._at_nodes", "src", "where = self.nodes[self._scope + f\"_{key}_index\"].isin(idx)", "where = self.nodes[f\"global_{key}_index\"].isin(idx)")),
    ("other", ("jaxley.modules.base:View._set_inds_in_view", "src", "(pre & post).flatten()", "(pre | post).flatten()")),
]


def main(tier):
    ck = Check(PID, tier, level="exploration")
    outs = run_units("jxverif.props.C11", "worker", [(p, tier, None) for p in PARTS] + [(p, "quick", c) for p, c in CANARIES])
    evals = cases = refusals = 0
    for o in outs[:len(PARTS)]:
        if o[0] != "ok" or o[1]["error"]:
            ck.error(str(o[1] if o[0] != "ok" else o[1]["error"])[:900])
            continue
        o = o[1]
        evals += o["evals"]
        cases += o["cases"]
        refusals += o["refusals"]
        for r in o["results"]:
            if r["status"] == "refuted":
                kf = ck.match_known(r["name"], o["witness"].get(r["name"]))
                if kf:
                    ck.known_finding(kf, kf["what"] + " [re-confirmed natively]")
                    ck.extra.setdefault("known_finding_obligations", []).append({"name": r["name"], "detail": r["detail"][:400]})
                    continue
                ck.add(r)
                ck.violation(r["name"], {"solver": r["backend"], "solver_output": r["detail"], "kind": "c11"}, reproduced=True)
            else:
                ck.add(r)
    for (p, can), oc in zip(CANARIES, outs[len(PARTS):]):
        ref = oc[0] == "ok" and not oc[1]["error"] and any(r["status"] != "proved" for r in oc[1]["results"])
        ck.canary(f"{can[0]}: {can[2][:50]!r} -> {can[3][:50]!r}", ref, oc)
    ck.bounded = {"evaluations": evals, "distinct_nontrivial": cases, "exhaustive": tier != "quick", "refusals_for_empty_denotations": refusals,
                  "rule": "network of 3 cells with branches [2,1,3], [1,2], [2] compartments, 6 synapses of 2 types, HH on parts, one group; all chains cell/branch/comp of depth 1-3 over 13 index forms per level "
                          "(quick: every 5th depth-3 chain) in local scope, global scope and with a scope switch after the first selection; groups, channel views, select, loc on a grid, boolean masks, lazy indexing, iteration; "
                          "chains mixing synapse steps (type view, global edge(i), select(edges=)) with cell/branch/comp steps in both orders, each with set/record of a synaptic key through it; 7 mutating calls x 6 views compared by table diff. A case is one distinct (chain, scope) or (view, operation) whose denotation is non-empty"}
    for f in ("jaxley.modules.base.Module._reformat_index", "jaxley.modules.base.Module._at_nodes", "jaxley.modules.base.Module._at_edges", "jaxley.modules.base.Module.select", "jaxley.modules.base.Module.loc",
              "jaxley.modules.base.Module.scope", "jaxley.modules.base.Module.__getitem__", "jaxley.modules.base.Module._iter_submodules", "jaxley.modules.base.Module._update_local_indices",
              "jaxley.modules.base.View.__init__", "jaxley.modules.base.View._set_inds_in_view", "jaxley.modules.base.Module.__getattr__"):
        ck.add_function(f, "bounded")
    ck.trusted = ["the denotation oracle in this file states what the property means", "np.digitize counts the edges <= x (used in the loc kernel lemma)"]
    ck.assumptions += ["negative integers in int/list indices have no meaning in jaxley (outside the contract); a slice denotes range(n_children)[slice] (per parent in local scope, of the whole module in global scope)",
                       "boolean masks are checked where their positions are unambiguous (one parent in view, local scope)",
                       "level: exploration (bounded contract evaluation); only the loc kernel is proved for all at"]
    return ck.finish(rule=ck.bounded["rule"])
