"""Sidecar contracts (E9, astvc.py) of the level-schedule helpers the Hines solver is driven by.  /repo is not edited.

Every contract has two forms of the same specification:
  * the z3 form (requires / loop invariants / ensures over the symbolic state) used by the VC generator - unbounded;
  * an executable form (py_requires / py_ensures) used to (a) replay counter-models and search small witnesses natively when a VC
    fails, (b) cross-check the engine against CPython on all small inputs on every run, (c) stand in - labelled bounded - when a
    function has been rewritten outside the VC generator's subset.
The top-level postconditions are taken from what C01 needs of the schedule (see DESIGN.md section 9.9): a branch is exactly one
level below its parent; list l-1 of `children_in_level` holds the child rows of exactly the branches in level l; list l of
`parents_in_level` holds the branch-point rows of exactly the parents in level l; nothing is dropped, duplicated or mis-filed.
"""
from __future__ import annotations

import itertools

import numpy as np
import z3

from .astvc import I, forall

And, Implies, If = z3.And, z3.Implies, z3.If


class Contract:
    def __init__(self, target, params, requires, loops, ensures, py_inputs, py_ensures, locals=None, canaries=(), serves=""):
        self.target, self.params, self.requires, self.loops, self.ensures = target, params, requires, loops, ensures
        self.py_inputs, self.py_ensures, self.locals, self.canaries, self.serves = py_inputs, py_ensures, locals or {}, canaries, serves


# ---------------------------------------------------------------------------------------------------------------------
# compute_levels(parents): parents topologically ordered (Cell refuses anything else since fix 63b044c), one root at index 0
def _topo(parents):
    return forall(["j_"], lambda j: Implies(And(j >= 1, j < parents.n), And(parents[j] >= 0, parents[j] < j)))


def _levels_ok(parents, levels, upto):
    return forall(["j_"], lambda j: Implies(And(j >= 0, j < upto),
                                            levels[j] == If(parents[j] == -1, 0, levels[parents[j]] + 1)))


def _small_trees(nmax):
    for n in range(1, nmax + 1):
        for rest in itertools.product(*[range(i) for i in range(1, n)]):
            yield [-1] + list(rest)


def _py_levels(parents):
    lv = []
    for i, p in enumerate(parents):
        lv.append(0 if p == -1 else lv[p] + 1)
    return lv


C_LEVELS = Contract(
    target="jaxley.utils.cell_utils.compute_levels",
    params={"parents": "arr"},
    requires=lambda s: [("one root, at index 0", And(s.parents.n >= 1, s.parents[0] == -1)), ("parents precede their children", _topo(s.parents))],
    loops={0: lambda s: [("length", s.levels.n == s.parents.n), ("prefix", _levels_ok(s.parents, s.levels, s.i)),
                         ("levels non-negative", forall(["j_"], lambda j: Implies(And(j >= 0, j < s.i), s.levels[j] >= 0)))]},
    ensures=lambda s, r: [("one entry per branch", r.n == s.IN_parents.n),
                          ("root has level 0, every other branch is exactly one level below its parent", _levels_ok(s.IN_parents, r, r.n)),
                          ("levels are non-negative", forall(["j_"], lambda j: Implies(And(j >= 0, j < r.n), r[j] >= 0)))],
    py_inputs=lambda nmax: ((np.asarray(p),) for p in _small_trees(nmax)),
    py_ensures=lambda args, res: list(np.asarray(res)) == _py_levels(list(args[0])),
    canaries=[("levels[p] + 1", "levels[p]"), ("levels[i] = 0", "levels[i] = 1")],
    serves="C01 (level schedule of the Hines elimination), C12",
)


# ---------------------------------------------------------------------------------------------------------------------
# compute_children_in_level(levels, children_row_and_col): row b-1 of children_row_and_col belongs to branch b (b >= 1)
_cnt = z3.Function("cnt_level", I, I, I)      # cnt_level(l, k) = #{b < k : levels[b] == l}   (ghost)


def _cnt_step(levels):
    l, k = z3.Int("l_"), z3.Int("k_")
    # instantiated only for terms cnt(l, k + 1) that occur (the unrestricted axiom sends z3 into a matching loop)
    return z3.ForAll([l, k], Implies(And(k >= 0, k < levels.n), _cnt(l, k + 1) == _cnt(l, k) + If(levels[k] == l, 1, 0)), patterns=[_cnt(l, k + 1)])


def _cnt_axioms(levels):
    return [("ghost cnt base", forall(["l_"], lambda l: _cnt(l, 0) == 0)),
            ("ghost cnt step", _cnt_step(levels))]


def _filed(levels, row, l, upto):
    """branches b < upto of level l sit at position cnt(l, b) of `row` and hold child row b-1"""
    return forall(["b_"], lambda b: Implies(And(b >= 0, b < upto, levels[b] == l), And(_cnt(l, b) >= 0, _cnt(l, b) < row.n, row[_cnt(l, b)] == b - 1)))


def _children_requires(s):
    lv, crc = s.levels, s.children_row_and_col
    return [("root only at level 0 / index 0", And(lv.n >= 1, lv[0] == 0)), ("one child row per non-root branch", crc.n == lv.n - 1),
            ("levels non-negative", forall(["j_"], lambda j: Implies(And(j >= 0, j < lv.n), lv[j] >= 0)))] + _cnt_axioms(lv)


def _children_outer(s):
    lv, R = s.levels, s.children_in_each_level
    return [("one list per finished level", R.n == s.l - 1),
            ("finished levels are filed completely, in branch order",
             forall(["l_"], lambda l: Implies(And(l >= 1, l < s.l), And(R.row(l - 1).n == _cnt(l, lv.n), _filed(lv, R.row(l - 1), l, lv.n)))))]


def _children_inner(s):
    lv, cur = s.levels, s.children_in_current_level
    return [("length so far", cur.n == _cnt(s.l, s.b)), ("filed so far", _filed(lv, cur, s.l, s.b)), ("num_branches", s.num_branches == lv.n)]


def _children_ensures(s, R):
    lv = s.IN_levels
    return [("one list per level 1..max(levels)", forall(["m_"], lambda m: Implies(And(forall(["j_"], lambda j: Implies(And(j >= 0, j < lv.n), lv[j] <= m)), z3.Exists([z3.Int("j2_")], And(z3.Int("j2_") >= 0, z3.Int("j2_") < lv.n, lv[z3.Int("j2_")] == m))), R.n == m))),
            ("list l-1 holds exactly the child rows of the branches in level l, in branch order, nothing dropped or added",
             forall(["l_"], lambda l: Implies(And(l >= 1, l <= R.n), And(R.row(l - 1).n == _cnt(l, lv.n), _filed(lv, R.row(l - 1), l, lv.n)))))]


def _py_children_inputs(nmax):
    for p in _small_trees(nmax):
        lv = np.asarray(_py_levels(p))
        crc = np.asarray([[10 * (b - 1), 10 * (b - 1) + 1] for b in range(1, len(p))]).reshape(-1, 2)
        yield (lv, crc)


def _py_children_ensures(args, res):
    lv, crc = args
    mx = int(np.max(lv))
    if len(res) != mx:
        return False
    for l in range(1, mx + 1):
        want = [list(crc[b - 1]) for b in range(len(lv)) if lv[b] == l]
        got = [list(x) for x in np.asarray(res[l - 1]).reshape(-1, 2)]
        if got != want:
            return False
    return True


C_CHILDREN = Contract(
    target="jaxley.utils.cell_utils.compute_children_in_level",
    params={"levels": "arr", "children_row_and_col": "rows"},
    requires=_children_requires,
    loops={0: _children_outer, 1: _children_inner},
    ensures=_children_ensures,
    locals={"children_in_each_level": "arr2", "children_in_current_level": "arr"},
    py_inputs=_py_children_inputs, py_ensures=_py_children_ensures,
    canaries=[("range(1, np.max(levels) + 1)", "range(1, np.max(levels))"), ("children_row_and_col[b - 1]", "children_row_and_col[b]"),
              ("if levels[b] == l:", "if levels[b] >= l:")],
    serves="C01 (which child rows are eliminated at which level)",
)


# ---------------------------------------------------------------------------------------------------------------------
# compute_parents_in_level(levels, par_inds, parents_row_and_col): row k of parents_row_and_col belongs to parent branch par_inds[k]
def _parents_requires(s):
    lv, pi, prc = s.levels, s.par_inds, s.parents_row_and_col
    return [("levels non-empty", lv.n >= 1), ("one row per parent", prc.n == pi.n),
            ("parent indices are branches", forall(["k_"], lambda k: Implies(And(k >= 0, k < pi.n), And(pi[k] >= 0, pi[k] < lv.n))))]


def _level_list_ok(lv, pi, row, l):
    return And(forall(["p_"], lambda p: Implies(And(p >= 0, p < row.n), And(row[p] >= 0, row[p] < pi.n, lv[pi[row[p]]] == l))),
               forall(["p_", "q_"], lambda p, q: Implies(And(p >= 0, p < q, q < row.n), row[p] < row[q])),
               forall(["k_"], lambda k: Implies(And(k >= 0, k < pi.n, lv[pi[k]] == l), z3.Exists([z3.Int("p2_")], And(z3.Int("p2_") >= 0, z3.Int("p2_") < row.n, row[z3.Int("p2_")] == k)))))


def _parents_loop(s):
    R = s.parents_in_each_level
    return [("one list per finished level", R.n == s.l),
            ("finished levels hold exactly their parents", forall(["l_"], lambda l: Implies(And(l >= 0, l < s.l), _level_list_ok(s.levels, s.par_inds, R.row(l), l)))),
            ("gathered levels", And(s.level_of_parent.n == s.par_inds.n, forall(["k_"], lambda k: Implies(And(k >= 0, k < s.par_inds.n), s.level_of_parent[k] == s.levels[s.par_inds[k]]))))]


def _parents_ensures(s, R):
    lv, pi = s.IN_levels, s.IN_par_inds
    return [("one list per level 0..max(levels)-1", forall(["m_"], lambda m: Implies(And(forall(["j_"], lambda j: Implies(And(j >= 0, j < lv.n), lv[j] <= m)), z3.Exists([z3.Int("j2_")], And(z3.Int("j2_") >= 0, z3.Int("j2_") < lv.n, lv[z3.Int("j2_")] == m))), R.n == If(m > 0, m, 0)))),
            ("list l holds exactly the rows of the parents in level l: sound, strictly increasing (no duplicates), complete",
             forall(["l_"], lambda l: Implies(And(l >= 0, l < R.n), _level_list_ok(lv, pi, R.row(l), l))))]


def _py_parents_inputs(nmax):
    for p in _small_trees(nmax):
        lv = np.asarray(_py_levels(p))
        pi = np.asarray(sorted(set(p[1:])), dtype=int)
        prc = np.asarray([[int(b), k] for k, b in enumerate(pi)], dtype=int).reshape(-1, 2)
        yield (lv, pi, prc)


def _py_parents_ensures(args, res):
    lv, pi, prc = args
    mx = int(np.max(lv))
    if len(res) != mx:
        return False
    for l in range(mx):
        want = [list(prc[k]) for k in range(len(pi)) if lv[pi[k]] == l]
        got = [list(x) for x in np.asarray(res[l]).reshape(-1, 2)]
        if got != want:
            return False
    return True


C_PARENTS = Contract(
    target="jaxley.utils.cell_utils.compute_parents_in_level",
    params={"levels": "arr", "par_inds": "arr", "parents_row_and_col": "rows"},
    requires=_parents_requires,
    loops={0: _parents_loop},
    ensures=_parents_ensures,
    locals={"parents_in_each_level": "arr2", "parents_inds_in_current_level": "arr", "parents_in_current_level": "arr"},
    py_inputs=_py_parents_inputs, py_ensures=_py_parents_ensures,
    canaries=[("range(np.max(levels))", "range(np.max(levels) - 1)"), ("level_of_parent == l", "level_of_parent == l + 1")],
    serves="C01 (which branch points are eliminated at which level)",
)


# ---------------------------------------------------------------------------------------------------------------------
# compute_children_indices(parents): entry b = the branches whose parent is b
def _kids_ok(parents, row, b):
    return And(forall(["p_"], lambda p: Implies(And(p >= 0, p < row.n), And(row[p] >= 0, row[p] < parents.n, parents[row[p]] == b))),
               forall(["p_", "q_"], lambda p, q: Implies(And(p >= 0, p < q, q < row.n), row[p] < row[q])),
               forall(["k_"], lambda k: Implies(And(k >= 0, k < parents.n, parents[k] == b), z3.Exists([z3.Int("p2_")], And(z3.Int("p2_") >= 0, z3.Int("p2_") < row.n, row[z3.Int("p2_")] == k)))))


C_KIDS = Contract(
    target="jaxley.utils.cell_utils.compute_children_indices",
    params={"parents": "arr"},
    requires=lambda s: [],
    loops={0: lambda s: [("one list per finished branch", s.child_indices.n == s.b), ("num_branches", s.num_branches == s.parents.n),
                         ("finished branches hold exactly their children", forall(["c_"], lambda c: Implies(And(c >= 0, c < s.b), _kids_ok(s.parents, s.child_indices.row(c), c))))]},
    ensures=lambda s, R: [("one list per branch", R.n == s.IN_parents.n),
                          ("entry b lists exactly the branches whose parent is b: sound, strictly increasing, complete",
                           forall(["c_"], lambda c: Implies(And(c >= 0, c < R.n), _kids_ok(s.IN_parents, R.row(c), c))))],
    locals={"child_indices": "arr2"},
    py_inputs=lambda nmax: ((np.asarray(p),) for p in _small_trees(nmax)),
    py_ensures=lambda args, res: len(res) == len(args[0]) and all(list(np.asarray(res[b])) == [k for k in range(len(args[0])) if args[0][k] == b] for b in range(len(args[0]))),
    canaries=[("parents == b", "parents == b + 1")],
    serves="C11/C12 (comb_children), C01 structure tables",
)

CONTRACTS = [C_LEVELS, C_CHILDREN, C_PARENTS, C_KIDS]
