"""Check runner: collects obligation results, known findings, replay files, evidence, exit code.

Exit codes: 0 held on everything explored / 1 violation (VIOLATION line) / 2 undecided / 3 checker error.
"""
from __future__ import annotations

import fnmatch
import json
import multiprocessing as mp
import os
import re
import sys
import time
import traceback
from pathlib import Path

ROOT = Path(__file__).resolve().parent.parent
# JXV_OUT redirects evidence and replay files (used only by the regression tools, which run the checks on patched scratch
# worktrees and must not touch the evidence of the unchanged tree)
_OUT = Path(os.environ["JXV_OUT"]) if os.environ.get("JXV_OUT") else ROOT
EVIDENCE = _OUT / "evidence"
REPLAYS = _OUT / "replays"
KNOWN = ROOT / "known_findings.jsonl"

GLOBAL_ASSUMPTIONS = [
    "machine arithmetic is treated as mathematical real arithmetic (float64 rounding not modelled)",
    "float literals denote the decimal numerals written in the source (0.1 = 1/10)",
    "the primitive models of jax.numpy/lax/vmap/scatter-add/tree_map in jxverif/sym.py are faithful "
    "(API-conformance checked at every call, differential self-test per run); jit/vmap/grad/scan/checkpoint "
    "preserve the semantics of pure traceable functions",
    "z3 5.1 (and cvc5 1.0 where used) are sound; the instantiated exp/log/tanh axiom schemas are true",
    "CPython executes the re-globalised code objects exactly as it executes the originals",
]


def load_known(pid):
    out = []
    if KNOWN.exists():
        for line in KNOWN.read_text().splitlines():
            line = line.strip()
            if not line or line.startswith("#") or line.startswith("fixed:"):
                continue
            rec = json.loads(line)
            if rec.get("property") == pid:
                out.append(rec)
    return out


class Check:
    def __init__(self, pid, tier, level="proof"):
        self.pid, self.tier, self.level = pid, tier, level
        self.seed = int(os.environ.get("VERIF_SEED", "0") or 0)
        self.t0 = time.time()
        self.results = []            # dicts: name,status,backend,time_s,model,detail
        self.functions = {}          # target -> {"status": ..., "obligations": n}
        self.assumptions = list(GLOBAL_ASSUMPTIONS)
        self.trusted = []
        self.bounded = {}            # Tier-B accounting (never counted as discharged)
        self.extra = {}
        self.violations = []         # (obligation name, replay path, no_input: bool)
        self.known_hit = []          # (finding id, text)
        self.undecided = []
        self.errors = []
        self.samples = []
        self.canaries = []           # (name, refuted: bool)
        self.notes = []              # NOTE lines (never affect the verdict)
        self.canaries_skipped = []   # canaries whose source pattern no longer occurs in the tree (not an error: the code was edited)
        self.refused = []
        self.known = load_known(pid)

    def canary(self, name, refuted, unit_out=None):
        """record the outcome of a vacuity canary (in-memory mutant of the real source).  A canary whose source pattern is
        absent from the current tree cannot be applied: it is listed as skipped - the edit that removed the pattern is
        judged by the obligations, not by the canary."""
        text = ""
        if unit_out is not None:
            try:
                text = str(unit_out[1] if unit_out[0] != "ok" else unit_out[1].get("error", ""))
            except Exception:
                text = ""
        if ("canary:" in text and ("not found in" in text or "closure variables" in text)) or text.rstrip().endswith(" not found") or ": not a function" in text:
            self.canaries_skipped.append(name)
            return
        self.canaries.append((name, refuted))

    # -- results
    def add(self, res):
        r = res if isinstance(res, dict) else res.to_json()
        self.results.append(r)
        return r

    def add_function(self, target, status, n=0):
        cur = self.functions.setdefault(target, {"status": status, "obligations": 0})
        cur["obligations"] += n
        rank = {"body discharged": 0, "bounded": 1, "assumed": 2, "body NOT discharged": 3}
        if rank.get(status, 0) > rank.get(cur["status"], 0):
            cur["status"] = status

    def error(self, msg, replay=None):
        """checker error (exit 3) - except for an index obligation that failed while the REAL code ran under the symbolic runtime
        (`IndexOutOfBounds`: a gather / scatter outside the array, which JAX silently clamps or drops): that is a refuted
        obligation of the code, reported as a violation"""
        text = str(msg)
        if "IndexOutOfBounds:" in text:
            first = text.split("IndexOutOfBounds:", 1)[1].strip().splitlines()[0][:160]
            where = text.split("IndexOutOfBounds:", 1)[0].strip(" :")[:120]
            name = f"index obligation:{where + ' ' if where else ''}{first}"
            if not any(v[0] == name for v in self.violations):
                self.add({"name": name, "status": "refuted", "backend": "index-evaluation", "time_s": 0.0, "model": {}, "detail": text[:1500]})
                self.violation(name, {"solver": "index-evaluation", "solver_output": text[:3000], "kind": "index", "replay": replay or {"reproduced": False}},
                               reproduced=bool((replay or {}).get("reproduced", False)))
            return
        self.errors.append(msg)

    # -- known findings ---------------------------------------------------------------------------
    def match_known(self, obligation, witness=None):
        """-> finding record if the failing obligation (and its witness) is a listed known finding"""
        for k in self.known:
            if not fnmatch.fnmatchcase(obligation, k["obligation"]):
                continue
            reg = k.get("region")
            if reg and witness is not None:
                try:
                    if not eval(reg, {"__builtins__": {"abs": abs, "min": min, "max": max, "len": len, "float": float,
                                                         "all": all, "any": any, "sum": sum, "prod": __import__("math").prod,
                                                         "frac": __import__("fractions").Fraction}}, dict(witness)):
                        continue
                except Exception:
                    continue
            return k
        return None

    def known_finding(self, k, what=None):
        txt = what or k["what"]
        if (k["id"], txt) not in self.known_hit:
            self.known_hit.append((k["id"], txt))

    # -- violations -------------------------------------------------------------------------------
    def violation(self, obligation, payload, reproduced=True):
        d = REPLAYS / self.pid
        d.mkdir(parents=True, exist_ok=True)
        fn = re.sub(r"[^A-Za-z0-9_.\-\[\]=|#]+", "_", obligation)[:150] + ".json"
        path = d / fn
        payload = dict(payload)
        payload.setdefault("property", self.pid)
        payload.setdefault("obligation", obligation)
        payload["reproduced_natively"] = bool(reproduced)
        payload.setdefault("replay_cmd", f"./check --replay {path.relative_to(_OUT)}")
        path.write_text(json.dumps(payload, indent=1, default=str))
        self.violations.append((obligation, str(path.relative_to(_OUT)), not reproduced))

    def primitive_selftest(self):
        """differential self-test of the primitive models against the installed jax (bounded; part of the trusted base report)"""
        try:
            from .sym import selftest
            n, bad = selftest(self.seed)
            self.extra["primitive_model_selftest"] = {"cases": n, "mismatches": bad[:10]}
            for b in bad[:5]:
                self.error(f"primitive model disagrees with the installed JAX: {b[:300]}")
        except Exception as e:
            self.error(f"primitive model self-test crashed: {type(e).__name__}: {e}")

    # -- finish -----------------------------------------------------------------------------------
    def finish(self, checker_cmd=None, rule=None):
        if "primitive_model_selftest" not in self.extra:
            self.primitive_selftest()
        # bounded stand-ins (contract evaluation, float probes, AST scans) are reported separately and never counted as
        # discharged proof obligations
        NOT_PROOF = ("bounded-evaluation", "ast-scan")
        bounded_res = [r for r in self.results if r.get("backend") in NOT_PROOF]
        proof_res = [r for r in self.results if r.get("backend") not in NOT_PROOF]
        all_results = self.results
        if self.level == "proof":
            self.results = proof_res
        n = len(self.results)
        proved = [r for r in self.results if r["status"] == "proved"]
        by_backend = {}
        for r in proved:
            by_backend[r["backend"]] = by_backend.get(r["backend"], 0) + 1
        solver_s = round(sum(r.get("time_s", 0) for r in self.results), 3)
        for r in self.results:
            if r["status"] == "unknown" and r["name"] not in self.undecided:
                self.undecided.append(r["name"])
        wall = round(time.time() - self.t0, 2)
        cov = {
            "obligations": n,
            "discharged": len(proved),
            "by_backend": by_backend,
            "solver_s": solver_s,
            "checker_cmd": checker_cmd or f"./check {self.pid} {self.tier}",
            "trusted_base": self.trusted,
            "functions_under_contract": self.functions,
            "samples": self.samples[:8] or [r["name"] for r in self.results[:5]],
            "canaries_refuted": sum(1 for c in self.canaries if c[1]),
            "canaries": [{"name": c[0], "refuted": c[1]} for c in self.canaries],
            "canaries_skipped_pattern_absent": self.canaries_skipped,
            "notes": self.notes,
            "known_findings": [{"id": i, "what": w} for i, w in self.known_hit],
            "undecided": self.undecided[:50],
            "refused": self.refused[:50],
            "bounded": self.bounded,
            "obligation_results": [[r["name"], r["status"], r["backend"], r.get("time_s", 0)] for r in self.results][:3000],
            "bounded_results": [[r["name"][:300], "held" if r["status"] == "proved" else r["status"], r["backend"]] for r in bounded_res][:300],
        }
        self.results = all_results
        cov.update(self.extra)
        if self.level != "proof" or self.bounded:
            ev = int(self.bounded.get("evaluations", 0))
            cov["evaluations"] = max(ev, 0)
            cov["distinct_nontrivial"] = int(self.bounded.get("distinct_nontrivial", 0))
            cov["rule"] = rule or self.bounded.get("rule", "")
            cov["exhaustive"] = bool(self.bounded.get("exhaustive", False))
        evidence = {
            "property_id": self.pid, "tier": self.tier, "seed": self.seed, "level": self.level,
            "coverage": cov, "assumptions": self.assumptions, "wall_s": wall,
            "violations": len(self.violations),
        }
        EVIDENCE.mkdir(exist_ok=True)
        (EVIDENCE / f"{self.pid}.json").write_text(json.dumps(evidence, indent=1, default=str))
        for i, w in self.known_hit:
            print(f"KNOWN-FINDING: property={self.pid} {i}: {w}")
        for ob, path, noinput in self.violations:
            print(f"VIOLATION property={self.pid} replay={path}" + (" no-failing-input-found" if noinput else ""))
            print(f"  failed obligation: {ob}")
        for u in self.undecided[:20]:
            print(f"UNDECIDED property={self.pid} obligation={u}")
        for e in self.errors[:20]:
            print(f"CHECKER-ERROR property={self.pid} {e}")
        for nline in self.notes:
            print(f"NOTE property={self.pid} {nline}")
        for c in self.canaries_skipped:
            print(f"NOTE property={self.pid} canary not applicable (its source pattern is absent from the current tree): {c}")
        bad_canaries = [c[0] for c in self.canaries if not c[1]]
        for c in bad_canaries:
            print(f"CHECKER-ERROR property={self.pid} canary not refuted (engine unsound?): {c}")
        print(f"[{self.pid} {self.tier}] obligations={n} discharged={len(proved)} violations={len(self.violations)} "
              f"undecided={len(self.undecided)} known={len(self.known_hit)} canaries={cov['canaries_refuted']}/{len(self.canaries)} "
              f"functions={len(self.functions)} wall={wall}s solver={solver_s}s")
        if self.violations:
            return 1
        if self.errors or bad_canaries:
            return 3
        if n == 0 and not self.bounded and not bounded_res:
            print(f"CHECKER-ERROR property={self.pid} zero obligations generated")
            return 3
        if self.undecided:
            return 2
        return 0


# ----------------------------------------------------------------------------------------------
def _worker(payload):
    modname, fname, arg = payload
    try:
        import importlib
        fn = getattr(importlib.import_module(modname), fname)
        return ("ok", fn(arg))
    except Exception as e:
        return ("error", f"{type(e).__name__}: {e}\n{traceback.format_exc(limit=8)}")


def run_units(modname, fname, args, nproc=None):
    """Run fn(arg) for every arg in a spawn pool (each worker imports jax/jaxley itself).  Results in order."""
    nproc = nproc or int(os.environ.get("JXV_NPROC", "0") or 0) or min(14, os.cpu_count() or 4)
    args = list(args)
    if len(args) <= 1 or nproc <= 1:
        return [_worker((modname, fname, a)) for a in args]
    ctx = mp.get_context("spawn")
    with ctx.Pool(min(nproc, len(args))) as pool:
        return pool.map(_worker, [(modname, fname, a) for a in args], chunksize=1)
