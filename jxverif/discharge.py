"""E2 - obligation discharge.

An obligation is  hyps |- goal  over real-valued z3 terms in which exp/log/tanh/sqrt occur as
uninterpreted functions.  True axioms about those functions are instantiated over the finitely many
argument terms that occur; a `sat` answer is checked in 50-digit mpmath with the true functions and, if
spurious, the axiom set is refined at the model point (incremental linearisation).

Verdicts:  proved | refuted (model survives evaluation with the true functions) | unknown.
`unknown` is never turned into a violation; it may be followed by a native witness search.
"""
from __future__ import annotations

import itertools
import math
import os
import subprocess
import tempfile
import time
from dataclasses import dataclass, field
from fractions import Fraction

import mpmath
import z3

from .sym import E, L, TH, SQ, rv, zeval, Unsupported

mpmath.mp.dps = 50
PI = z3.Real("PI")
PI_FACTS = [PI > rv(Fraction("3.14159265358979")), PI < rv(Fraction("3.14159265358980"))]


@dataclass
class Result:
    name: str
    status: str                 # proved | refuted | unknown
    backend: str = ""           # z3 | z3+cegar | cvc5 | structural | witness-search
    time_s: float = 0.0
    model: dict = field(default_factory=dict)
    detail: str = ""
    rounds: int = 0

    def to_json(self):
        return {"name": self.name, "status": self.status, "backend": self.backend,
                "time_s": round(self.time_s, 4), "model": self.model, "detail": self.detail[:2000]}


# ----------------------------------------------------------------------------------------------
def _collect(es):
    """all applications of the transcendental UFs and all free variables in a list of terms"""
    apps = {"EXP": {}, "LOG": {}, "TANH": {}, "SQRT": {}}
    consts = {}
    seen = set()
    stack = list(es)
    while stack:
        e = stack.pop()
        i = e.get_id()
        if i in seen:
            continue
        seen.add(i)
        if z3.is_app(e):
            d = e.decl()
            if d.kind() == z3.Z3_OP_UNINTERPRETED:
                if e.num_args() == 0:
                    consts[d.name()] = e
                elif d.name() in apps:
                    apps[d.name()][e.arg(0).get_id()] = e.arg(0)
            stack.extend(e.children())
    return apps, consts


def _enclose(f, c: Fraction, digits=25):
    """rational enclosure (lo, hi) of f(c) for mpmath function f"""
    x = mpmath.mpf(c.numerator) / mpmath.mpf(c.denominator)
    y = f(x)
    if y == 0:
        return Fraction(0), Fraction(0)
    mag = int(mpmath.floor(mpmath.log10(abs(y)))) if y != 0 else 0
    scale = Fraction(10) ** (digits - mag)
    n = int(mpmath.floor(y * mpmath.mpf(scale.numerator) / mpmath.mpf(scale.denominator)))
    return Fraction(n - 1) / scale, Fraction(n + 2) / scale


def _const_val(t):
    t = z3.simplify(t)
    if z3.is_rational_value(t):
        return t.as_fraction()
    return None


def transcendental_axioms(apps, light=False):
    ax = []
    ex = list(apps["EXP"].values())
    one, zero = rv(1), rv(0)
    ex_all = {t.get_id(): t for t in ex}
    simp = {}
    for t in ex:
        simp[z3.simplify(t).sexpr()] = t
    for t in ex:
        ax += [E(t) > 0, z3.Implies(t == 0, E(t) == 1), z3.Implies(t > 0, E(t) > 1), z3.Implies(t < 0, E(t) < 1)]
        if light:
            neg = simp.get(z3.simplify(-t).sexpr())
            if neg is not None:
                ax.append(E(t) * E(neg) == 1)
            continue
        ax += [E(t) >= 1 + t, z3.Implies(t < 1, E(t) * (1 - t) <= 1),
               z3.Implies(t >= 0, E(t) >= 1 + t + t * t / 2), z3.Implies(t <= 0, E(t) <= 1 + t + t * t / 2)]
        # third-order Taylor enclosure on |t| <= 1:  |e^t - (1+t+t^2/2)| <= |t|^3/2
        at = z3.If(t >= 0, t, -t)
        ax += [z3.Implies(z3.And(t >= -1, t <= 1), z3.And(E(t) <= 1 + t + t * t / 2 + at * at * at / 2,
                                                            E(t) >= 1 + t + t * t / 2 - at * at * at / 2))]
        c = _const_val(t)
        if c is not None and abs(c) <= 700:
            lo, hi = _enclose(mpmath.exp, c)
            ax += [E(t) > rv(lo), E(t) < rv(hi)]
        neg = simp.get(z3.simplify(-t).sexpr())
        if neg is not None:
            ax.append(E(t) * E(neg) == 1)
    for a, b in itertools.combinations(ex, 2):
        ax += [z3.Implies(a < b, E(a) < E(b)), z3.Implies(b < a, E(b) < E(a))]
        ssum = z3.simplify(a + b)
        if z3.is_rational_value(ssum) and ssum.as_fraction() == 0:
            ax.append(E(a) * E(b) == 1)
            continue
        s = simp.get(ssum.sexpr())
        if s is not None:
            ax.append(E(a) * E(b) == E(s))
    lg = list(apps["LOG"].values())
    for s in lg:
        ax += [z3.Implies(s > 0, E(L(s)) == s),
               z3.Implies(s == 1, L(s) == 0), z3.Implies(s > 1, L(s) > 0), z3.Implies(z3.And(s > 0, s < 1), L(s) < 0)]
        if light:
            continue
        ax += [z3.Implies(s > 0, z3.And(L(s) <= s - 1, L(s) * s >= s - 1))]
        c = _const_val(s)
        if c is not None and c > 0:
            lo, hi = _enclose(mpmath.log, c)
            ax += [L(s) >= rv(lo), L(s) <= rv(hi)]
    for a, b in itertools.combinations(lg, 2):
        ax += [z3.Implies(z3.And(a > 0, a < b), L(a) < L(b)), z3.Implies(z3.And(b > 0, b < a), L(b) < L(a))]
    for t in ex:
        ax.append(L(E(t)) == t)
    th = list(apps["TANH"].values())
    for t in th:
        ax += [TH(t) > -1, TH(t) < 1, z3.Implies(t > 0, z3.And(TH(t) > 0, TH(t) < t)),
               z3.Implies(t < 0, z3.And(TH(t) < 0, TH(t) > t)), z3.Implies(t == 0, TH(t) == 0)]
    for a, b in itertools.combinations(th, 2):
        ax += [z3.Implies(a < b, TH(a) < TH(b)), z3.Implies(b < a, TH(b) < TH(a)), z3.Implies(a == -b, TH(a) == -TH(b))]
    for s in apps["SQRT"].values():
        ax += [z3.Implies(s >= 0, z3.And(SQ(s) >= 0, SQ(s) * SQ(s) == s))]
    return ax


_TRUE = {"EXP": mpmath.exp, "LOG": mpmath.log, "TANH": mpmath.tanh, "SQRT": mpmath.sqrt}
_UF = {"EXP": E, "LOG": L, "TANH": TH, "SQRT": SQ}


def _model_env(m, consts):
    env = {}
    for nm, c in consts.items():
        v = m.eval(c, model_completion=True)
        if z3.is_rational_value(v):
            env[nm] = v.as_fraction()
        elif z3.is_algebraic_value(v):
            env[nm] = v.approx(40).as_fraction()
        else:
            env[nm] = Fraction(0)
    return env


def _fr(x, digits=30):
    """mpf -> Fraction (rounded)"""
    return Fraction(str(mpmath.nstr(x, digits, strip_zeros=False))) if mpmath.isfinite(x) else None


def _refine(apps, env, round_no):
    """tangent / secant instances of exp (and log) at the model point: valid for all t."""
    ax = []
    delta = Fraction(1, 4 ** (round_no + 1))
    for t in apps["EXP"].values():
        try:
            a = zeval(t, env, mpmath)
        except Unsupported:
            continue
        if not mpmath.isfinite(a) or abs(a) > 600:
            continue
        a = _fr(a, 20)
        lo_a, hi_a = _enclose(mpmath.exp, a)
        # tangent (convexity):  e^t >= e^a (1 + t - a)   -- use the lower enclosure when (1+t-a) >= 0
        ax.append(z3.Implies(1 + t - rv(a) >= 0, E(t) >= rv(lo_a) * (1 + t - rv(a))))
        l, u = a - delta, a + delta
        _, hi_l = _enclose(mpmath.exp, l)
        _, hi_u = _enclose(mpmath.exp, u)
        # secant: on [l,u] the chord through upper enclosures lies above e^t
        ax.append(z3.Implies(z3.And(t >= rv(l), t <= rv(u)),
                             E(t) <= rv(hi_l) + (rv(hi_u) - rv(hi_l)) / rv(u - l) * (t - rv(l))))
    for s in apps["LOG"].values():
        try:
            a = zeval(s, env, mpmath)
        except Unsupported:
            continue
        if not mpmath.isfinite(a) or a <= 0:
            continue
        a = _fr(a, 20)
        lo_a, hi_a = _enclose(mpmath.log, a)
        # tangent (concavity): log s <= log a + (s-a)/a
        ax.append(z3.Implies(s > 0, L(s) <= rv(hi_a) + (s - rv(a)) / rv(a)))
        l, u = a * (1 - delta / 2), a * (1 + delta / 2)
        if l > 0:
            lo_l, _ = _enclose(mpmath.log, l)
            lo_u, _ = _enclose(mpmath.log, u)
            ax.append(z3.Implies(z3.And(s >= rv(l), s <= rv(u)),
                                 L(s) >= rv(lo_l) + (rv(lo_u) - rv(lo_l)) / rv(u - l) * (s - rv(l))))
    return ax


def holds_leniently(goal, env, tol=1e-25, memo=None):
    """Evaluate a goal with the true functions (50 digits); comparisons are relaxed by a relative `tol` so that
    rounding in the evaluation itself is never mistaken for a violation: False only if the goal fails by more
    than tol."""
    memo = {} if memo is None else memo

    def ev(e):
        if z3.is_true(e):
            return True
        if z3.is_false(e):
            return False
        k = e.decl().kind()
        ch = e.children()
        if k == z3.Z3_OP_AND:
            return all(ev(c) for c in ch)
        if k == z3.Z3_OP_OR:
            return any(ev(c) for c in ch)
        if k == z3.Z3_OP_IMPLIES:
            return (not zeval(ch[0], env, mpmath, memo)) or ev(ch[1])
        if k == z3.Z3_OP_ITE and z3.is_bool(e):
            return ev(ch[1]) if zeval(ch[0], env, mpmath, memo) else ev(ch[2])
        if k == z3.Z3_OP_NOT:
            return not zeval(ch[0], env, mpmath, memo)
        if k in (z3.Z3_OP_LE, z3.Z3_OP_LT, z3.Z3_OP_GE, z3.Z3_OP_GT, z3.Z3_OP_EQ) and not z3.is_bool(ch[0]):
            a, b = zeval(ch[0], env, mpmath, memo), zeval(ch[1], env, mpmath, memo)
            if a != a or b != b:
                return False
            sl = tol * max(1, abs(a), abs(b))
            if k in (z3.Z3_OP_LE, z3.Z3_OP_LT):
                return a <= b + sl if k == z3.Z3_OP_LE else a < b + sl
            if k in (z3.Z3_OP_GE, z3.Z3_OP_GT):
                return a + sl >= b if k == z3.Z3_OP_GE else a + sl > b
            return abs(a - b) <= sl
        return bool(zeval(e, env, mpmath, memo))
    return ev(goal)


def _true_counterexample(hyps, goal, env):
    """evaluate hyps and goal with the true functions at the model's variable assignment; the goal must fail by
    more than the evaluation tolerance"""
    try:
        memo = {}
        for h in hyps:
            if not zeval(h, env, mpmath, memo):
                return False
        return not holds_leniently(goal, env, 1e-25, memo)
    except (Unsupported, ZeroDivisionError, ValueError, TypeError):
        return False


def prove(name, hyps, goal, timeout_ms=30000, rounds=6, use_cvc5=True, quant_free=True) -> Result:
    """Discharge one obligation."""
    t0 = time.time()
    hyps = [h for h in hyps if not z3.is_true(h)]
    g = z3.simplify(goal) if quant_free else goal
    if z3.is_true(g):
        return Result(name, "proved", "structural", time.time() - t0)
    apps, consts = _collect(hyps + [goal])
    base = list(hyps)
    if "PI" in consts:
        base += PI_FACTS
    # close the set of exp/log arguments under the terms introduced by the axioms (E(L(s))) and under the
    # summands of top-level sums (so that exp(a+b) = exp(a)exp(b) can be instantiated)
    for s in list(apps["LOG"].values()):
        apps["EXP"].setdefault(L(s).get_id(), L(s))
    if apps["LOG"]:
        # goal-directed: an equality l == r between terms containing logarithms is proved by comparing exp(l) with
        # exp(r) (exp is injective: the pairwise monotonicity axioms are instantiated for l and r)
        gs = z3.simplify(goal)
        for eq in ([gs] if not z3.is_and(gs) else gs.children()):
            if z3.is_eq(eq) and eq.arg(0).sort() == z3.RealSort():
                for side in (eq.arg(0), eq.arg(1)):
                    apps["EXP"].setdefault(side.get_id(), side)
    for t in list(apps["EXP"].values()):
        if z3.is_app(t) and t.decl().kind() == z3.Z3_OP_ADD and t.num_args() == 2:
            for c in t.children():
                apps["EXP"].setdefault(c.get_id(), c)
                neg = z3.simplify(-c)
                apps["EXP"].setdefault(neg.get_id(), neg)
    extra_args = {k: dict(v) for k, v in apps.items()}
    hyps2, goal, n_unified = unify_uf_args(base, goal, apps, max_pairs=40 if timeout_ms >= 20000 else 10, timeout_ms=min(2000, max(200, int(timeout_ms) // 15)))
    if n_unified:
        base = hyps2
        apps, consts = _collect(base + [goal])
        for fam in extra_args:
            for t in extra_args[fam].values():
                apps[fam].setdefault(t.get_id(), t)
        if z3.is_true(z3.simplify(goal)):
            return Result(name, "proved", "z3", time.time() - t0, detail=f"after unifying {n_unified} provably equal exp/log arguments")
    has_tr0 = any(apps[k] for k in apps)
    if has_tr0 and quant_free:
        # phase 0: generalise every exp/log/tanh/sqrt application to a fresh real (same application, same variable).
        # If the obligation is valid in this generalised form it is valid (the functions are total on the proved-defined
        # arguments): this decides pure routing / algebra obligations without touching the transcendental axioms.
        sub = []
        n_ = 0
        for fam in ("EXP", "LOG", "TANH", "SQRT"):
            for t in apps[fam].values():
                sub.append((_UF[fam](t), z3.Real(f"uf!{fam}!{n_}")))
                n_ += 1
        # innermost applications may occur inside arguments of others: substitute repeatedly, outermost first is fine
        # because z3.substitute works on the DAG simultaneously; nested ones simply stay as they are inside a variable.
        s0 = z3.Solver()
        s0.set("timeout", int(min(timeout_ms, 5000)))
        s0.add(*[z3.substitute(h, *sub) for h in base])
        s0.add(z3.Not(z3.substitute(goal, *sub)))
        if s0.check() == z3.unsat:
            return Result(name, "proved", "z3", time.time() - t0, detail="transcendental applications generalised to free variables")
    if has_tr0 and quant_free:
        # phase 1: light axiom set (signs, inverse laws, monotonicity, product laws) under a short budget
        s1 = z3.Solver()
        s1.set("timeout", int(min(timeout_ms, 8000)))
        s1.add(*base)
        s1.add(*transcendental_axioms(apps, light=True))
        s1.add(z3.Not(goal))
        if s1.check() == z3.unsat:
            return Result(name, "proved", "z3", time.time() - t0, detail="light axiom set")
    axioms = transcendental_axioms(apps)
    s = z3.Solver()
    s.set("timeout", int(timeout_ms))
    s.add(*base)
    s.add(*axioms)
    s.add(z3.Not(goal))
    has_tr = any(apps[k] for k in apps)
    status, detail, model_env, rnd = "unknown", "", {}, 0
    for rnd in range(rounds + 1):
        r = s.check()
        if r == z3.unknown:
            # slow queries are the unstable ones: retry the same assertions with other seeds before giving up
            for seed in ((1, 2) if timeout_ms >= 20000 else ()):
                s2 = z3.Solver()
                s2.set("timeout", int(timeout_ms))
                s2.set("random_seed", seed)
                s2.add(*s.assertions())
                r = s2.check()
                if r != z3.unknown:
                    s = s2
                    break
        if r == z3.unsat:
            return Result(name, "proved", "z3" if rnd == 0 else "z3+cegar", time.time() - t0, rounds=rnd)
        if r == z3.unknown:
            detail = f"z3: {s.reason_unknown()}"
            break
        m = s.model()
        env = _model_env(m, consts)
        env_m = dict(env)
        env_m["__model__"] = m
        if _true_counterexample(base, goal, env_m):
            return Result(name, "refuted", "z3" if rnd == 0 else "z3+cegar", time.time() - t0,
                          model={k: _fstr(v) for k, v in sorted(env.items())},
                          detail="model satisfies the hypotheses and falsifies the goal under the true exp/log/tanh", rounds=rnd)
        if not has_tr:
            # purely algebraic model that does not survive evaluation: numeric artefact (algebraic numbers)
            detail = "algebraic model did not survive rational evaluation"
            break
        ref = _refine(apps, env, rnd)
        if not ref:
            detail = "spurious model, no refinement available"
            break
        s.add(*ref)
        detail = "spurious model after refinement rounds"
        model_env = env
    if use_cvc5:
        r2 = _cvc5(base + axioms, goal, timeout_ms)
        if r2 == "unsat":
            return Result(name, "proved", "cvc5", time.time() - t0, rounds=rnd)
        detail += f"; cvc5: {r2}"
    return Result(name, "unknown", "z3", time.time() - t0, detail=detail, rounds=rnd,
                  model={k: _fstr(v) for k, v in sorted(model_env.items())})


def unify_uf_args(hyps, goal, apps, max_pairs=40, timeout_ms=2000):
    """Arguments of exp/log/tanh that are provably equal under the hypotheses (pure real arithmetic, small
    budget) are replaced by one representative.  Sound: only proved equalities are used.  This removes the
    dependence of a verdict on how an argument happens to be written (-dt/(1/(a+b)) vs -dt*(a+b))."""
    subs = []
    n = 0
    for fam in ("EXP", "LOG", "TANH", "SQRT"):
        args = list(apps[fam].values())
        if len(args) < 2:
            continue
        reps = []
        tried = 0
        for a in args:
            found = None
            for r in reps:
                if tried >= max_pairs:
                    break
                tried += 1
                d = z3.simplify(a - r)
                if z3.is_rational_value(d):
                    if d.as_fraction() == 0:
                        found = r
                        break
                    continue
                s = z3.Solver()
                s.set("timeout", timeout_ms)
                s.add(*[h for h in hyps if not _mentions_uf(h)])
                s.add(a != r)
                if s.check() == z3.unsat:
                    found = r
                    break
            if found is None:
                reps.append(a)
            else:
                subs.append((a, found))
                n += 1
    if not subs:
        return hyps, goal, 0
    uf = _UF
    pairs = []
    for a, r in subs:
        for fam in ("EXP", "LOG", "TANH", "SQRT"):
            pairs.append((uf[fam](a), uf[fam](r)))
    goal2 = z3.substitute(goal, *pairs)
    hyps2 = [z3.substitute(h, *pairs) for h in hyps]
    return hyps2, goal2, n


def _mentions_uf(e):
    seen = set()
    stack = [e]
    while stack:
        x = stack.pop()
        if x.get_id() in seen:
            continue
        seen.add(x.get_id())
        if z3.is_app(x) and x.decl().kind() == z3.Z3_OP_UNINTERPRETED and x.num_args() > 0:
            return True
        stack.extend(x.children())
    return False


def _fstr(fr):
    if isinstance(fr, Fraction):
        return str(fr) if fr.denominator == 1 else f"{fr.numerator}/{fr.denominator}"
    return str(fr)


def _cvc5(assertions, goal, timeout_ms):
    exe = "/usr/bin/cvc5"
    if not os.path.exists(exe):
        return "absent"
    s = z3.Solver()
    s.add(*assertions)
    s.add(z3.Not(goal))
    txt = "(set-logic QF_UFNRA)\n" + s.to_smt2()
    with tempfile.NamedTemporaryFile("w", suffix=".smt2", delete=False, dir=os.environ.get("JXV_TMP")) as f:
        f.write(txt)
        path = f.name
    try:
        out = subprocess.run([exe, f"--tlimit={int(timeout_ms)}", path], capture_output=True, text=True,
                             timeout=timeout_ms / 1000 + 5)
        ans = out.stdout.strip().splitlines()
        return ans[0] if ans else "error"
    except subprocess.TimeoutExpired:
        return "timeout"
    finally:
        os.unlink(path)


def satisfiable(hyps, timeout_ms=10000):
    """vacuity guard: the assumption set must be satisfiable (checked without transcendental axioms first, then with)"""
    apps, consts = _collect(list(hyps))
    s = z3.Solver()
    s.set("timeout", int(timeout_ms))
    s.add(*hyps)
    if "PI" in consts:
        s.add(*PI_FACTS)
    s.add(*transcendental_axioms(apps))
    r = s.check()
    return str(r)


# ----------------------------------------------------------------------------------------------
# native witness search for undecided obligations (never discharges anything)
# ----------------------------------------------------------------------------------------------
def witness_search(hyps, goal, boxes, special=(), n=4000, seed=0):
    """Evaluate hyps -> goal with the true functions on a low-discrepancy grid, the domain corners and the
    neighbourhoods of `special` values per variable.  Returns an env falsifying the goal or None."""
    names = sorted(boxes)
    if not names:
        return None
    pts = []
    los = [Fraction(str(boxes[k][0])) for k in names]
    his = [Fraction(str(boxes[k][1])) for k in names]
    for corner in itertools.islice(itertools.product(*[(l, h) for l, h in zip(los, his)]), 256):
        pts.append(corner)
    primes = [2, 3, 5, 7, 11, 13, 17, 19, 23, 29, 31, 37, 41, 43, 47, 53]

    def halton(i, b):
        f, r = Fraction(1), Fraction(0)
        while i > 0:
            f /= b
            r += f * (i % b)
            i //= b
        return r
    for i in range(1, n + 1):
        pts.append(tuple(l + (h - l) * halton(i + seed, primes[j % len(primes)]) for j, (l, h) in enumerate(zip(los, his))))
    for j, k in enumerate(names):
        for sp in special.get(k, ()) if isinstance(special, dict) else ():
            for eps in (0, Fraction(1, 10**9), -Fraction(1, 10**9), Fraction(1, 10**4), -Fraction(1, 10**4)):
                x = Fraction(str(sp)) + eps
                if los[j] <= x <= his[j]:
                    for i in range(1, 40):
                        p = [l + (h - l) * halton(i, primes[(jj + 3) % len(primes)]) for jj, (l, h) in enumerate(zip(los, his))]
                        p[j] = x
                        pts.append(tuple(p))
    for p in pts:
        env = dict(zip(names, p))
        if _true_counterexample(hyps, goal, env):
            # a violation must persist at much higher working precision (cancellation in the evaluation itself
            # is not a property violation)
            old = mpmath.mp.dps
            try:
                mpmath.mp.dps = 400
                still = _true_counterexample(hyps, goal, env)
            finally:
                mpmath.mp.dps = old
            if still:
                return env
    return None


# ----------------------------------------------------------------------------------------------
# symbolic differentiation of terms (for the derivative-consistency obligation of selects taken on a null set)
# ----------------------------------------------------------------------------------------------
class NotDifferentiable(Exception):
    pass


def zdiff(e, x, memo=None):
    """d e / d x for a z3 real term built from + - * / ** (numeral exponent), If, EXP/LOG/TANH/SQRT and variables"""
    from .sym import E, L, TH, SQ
    memo = {} if memo is None else memo
    k = e.get_id()
    if k in memo:
        return memo[k]
    zero, one = z3.RealVal(0), z3.RealVal(1)
    if z3.is_rational_value(e) or z3.is_int_value(e) or z3.is_algebraic_value(e):
        r = zero
    elif z3.is_const(e):
        r = one if e.eq(x) else zero
    else:
        dk = e.decl().kind()
        ch = e.children()
        if dk == z3.Z3_OP_ADD:
            r = z3.Sum([zdiff(c, x, memo) for c in ch])
        elif dk == z3.Z3_OP_SUB:
            r = zdiff(ch[0], x, memo)
            for c in ch[1:]:
                r = r - zdiff(c, x, memo)
        elif dk == z3.Z3_OP_UMINUS:
            r = -zdiff(ch[0], x, memo)
        elif dk == z3.Z3_OP_MUL:
            terms = []
            for i in range(len(ch)):
                d = zdiff(ch[i], x, memo)
                if z3.is_rational_value(d) and d.numerator_as_long() == 0:
                    continue
                prod = d
                for j in range(len(ch)):
                    if j != i:
                        prod = prod * ch[j]
                terms.append(prod)
            r = z3.Sum(terms) if terms else zero
        elif dk == z3.Z3_OP_DIV:
            u, v = ch
            r = (zdiff(u, x, memo) * v - u * zdiff(v, x, memo)) / (v * v)
        elif dk == z3.Z3_OP_POWER and z3.is_rational_value(ch[1]):
            n = ch[1]
            r = n * ch[0] ** (n - 1) * zdiff(ch[0], x, memo)
        elif dk == z3.Z3_OP_ITE:
            r = z3.If(ch[0], zdiff(ch[1], x, memo), zdiff(ch[2], x, memo))
        elif dk == z3.Z3_OP_TO_REAL:
            r = zero
        elif dk == z3.Z3_OP_UNINTERPRETED and len(ch) == 1 and e.decl().name() in ("EXP", "LOG", "TANH", "SQRT"):
            u, du = ch[0], zdiff(ch[0], x, memo)
            nm = e.decl().name()
            r = {"EXP": lambda: E(u) * du, "LOG": lambda: du / u, "TANH": lambda: (1 - TH(u) * TH(u)) * du, "SQRT": lambda: du / (2 * SQ(u))}[nm]()
        else:
            raise NotDifferentiable(f"no derivative rule for {e.decl().name()}")
    r = z3.simplify(r) if not isinstance(r, (int, float)) else z3.RealVal(r)
    memo[k] = r
    return r


def real_vars(e):
    out, seen, st = {}, set(), [e]
    while st:
        t = st.pop()
        if t.get_id() in seen:
            continue
        seen.add(t.get_id())
        if z3.is_const(t) and t.decl().kind() == z3.Z3_OP_UNINTERPRETED and t.sort() == z3.RealSort():
            out[t.decl().name()] = t
        st.extend(t.children())
    return out


def null_select_obligations(prefix, hyps, null_selects):
    """-> [(name, hyps, goal)]: on the null set the derivative of the branch taken there equals that of the other branch.
    One obligation per (select, variable the two branches do not trivially agree on)."""
    obls = []
    for k, (cond, on_null, other) in enumerate(null_selects):
        label = f"{prefix}:select #{k} taken on a null set ({str(cond)[:60]}) has the derivative of the surrounding branch"
        try:
            vs = {**real_vars(on_null), **real_vars(other)}
            cvars = set(real_vars(cond))
            n = 0
            for nm in sorted(vs, key=lambda v: (v not in cvars, v)):
                da, db = zdiff(on_null, vs[nm]), zdiff(other, vs[nm])
                if da.eq(db) or z3.is_true(z3.simplify(da == db)):
                    continue
                obls.append((f"{label} [d/d{nm}]", list(hyps) + [cond], da == db))
                n += 1
            if n == 0:
                obls.append((label, list(hyps) + [cond], z3.BoolVal(True)))
        except NotDifferentiable as ex:
            obls.append((f"{label} [{ex}]", list(hyps) + [cond], z3.BoolVal(False)))
    return obls
