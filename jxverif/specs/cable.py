"""Specification of the discretised cable equation, written from the physics (NOT from the code).

Input: a list of cells, each `(parents, ncomps)` (branch tree + compartments per branch), and per-compartment
symbolic radius r [um], length l [um], axial resistivity ra [ohm cm], capacitance cm [uF/cm2], membrane terms
a [1/ms] (sum of membrane conductances / cm), c [mV/ms], voltage v [mV], time step dt [ms].

Nodes: compartments 0..N-1 (cell by cell, branch by branch, compartment by compartment) and one
zero-capacitance Kirchhoff node per branch that has children ("branch point"), N..N+B-1.

Physics:
  axial resistance of a compartment (a cylinder)          R_i = ra_i * (l_i*1e-4 cm) / (pi * (r_i*1e-4 cm)^2)   [ohm]
  conductance between adjacent compartments               G_ij = 1 / (R_i/2 + R_j/2)                               [S]
  conductance between a compartment and a branch point    G_i  = 1 / (R_i/2)                                       [S]
  membrane area                                           A_i = 2*pi*r_i*l_i * 1e-8                                [cm2]
  compartment i:  cm_i dV_i/dt = -i_membrane + sum_j 1000*G_ij/A_i (V_j - V_i)      (1000: S -> mS, so mS/cm2*mV = uA/cm2)
  branch point:   0 = sum_k G_k (V_k - V_bp)
Backward Euler with step dt:  (1 + dt*a_i) x_i + dt * sum_j (1000*G_ij/(A_i*cm_i)) (x_i - x_j) = v_i + dt*c_i.
"""
from __future__ import annotations

from fractions import Fraction

import numpy as np
import z3

from ..sym import Sym

PI = Sym(z3.Real("PI"))


class Topology:
    """nodes and adjacency derived from (parents, ncomps) alone"""

    def __init__(self, cells):
        self.cells = [(list(map(int, p)), list(map(int, n))) for p, n in cells]
        self.first, self.last, self.branch_of_comp = {}, {}, []
        self.cell_of_branch = []
        k = 0
        gb = 0
        self.branch_offset = []
        for ci, (parents, ncomps) in enumerate(self.cells):
            self.branch_offset.append(gb)
            for b, n in enumerate(ncomps):
                self.first[gb + b] = k
                self.last[gb + b] = k + n - 1
                self.branch_of_comp += [gb + b] * n
                k += n
                self.cell_of_branch.append(ci)
            gb += len(ncomps)
        self.N = k
        self.nbranches = gb
        # branch points: one per branch with children, keyed by the global index of the parent branch
        self.bp_of_parent = {}
        self.children = {}
        for ci, (parents, ncomps) in enumerate(self.cells):
            off = self.branch_offset[ci]
            for b, p in enumerate(parents):
                if p >= 0:
                    self.children.setdefault(off + p, []).append(off + b)
        for j, p in enumerate(sorted(self.children)):
            self.bp_of_parent[p] = self.N + j
        self.B = len(self.bp_of_parent)
        # adjacency
        self.cc = []     # (i, j) adjacent compartments within a branch, i < j
        self.cb = []     # (compartment, branch point node)
        for b in range(self.nbranches):
            for i in range(self.first[b], self.last[b]):
                self.cc.append((i, i + 1))
        for p, kids in self.children.items():
            self.cb.append((self.last[p], self.bp_of_parent[p]))
            for c in kids:
                self.cb.append((self.first[c], self.bp_of_parent[p]))


def R(ra, l, r):
    """axial resistance of a cylinder [ohm]"""
    return ra * (l * Fraction(1, 10**4)) / (PI * (r * Fraction(1, 10**4)) * (r * Fraction(1, 10**4)))


def area(r, l):
    """membrane area [cm2]"""
    return 2 * PI * r * l * Fraction(1, 10**8)


def system(topo: Topology, P, dt, scheme_dt=None):
    """Backward-Euler system A x = b as rows [(coeffs: {node: Sym}, rhs: Sym)] over spec node ids.
    P: dict of SymArrays 'radius','length','axial_resistivity','capacitance','a','c','v' (per compartment)."""
    r, l, ra, cm, a, c, v = (P[k] for k in ("radius", "length", "axial_resistivity", "capacitance", "a", "c", "v"))
    rows = []
    for i in range(topo.N):
        rows.append(({i: Sym(1) + dt * a[i]}, v[i] + dt * c[i]))
    for j in range(topo.B):
        rows.append(({topo.N + j: Sym(0)}, Sym(0)))

    def addc(i, other, g_S):
        # g_S: conductance in S between compartment i and `other`; per-area, in mS/cm2, divided by capacitance
        g = Sym(1000) * g_S / (area(r[i], l[i]) * cm[i])
        co, _ = rows[i]
        co[i] = co[i] + dt * g
        co[other] = co.get(other, Sym(0)) - dt * g
    for (i, j) in topo.cc:
        G = Sym(1) / (R(ra[i], l[i], r[i]) / 2 + R(ra[j], l[j], r[j]) / 2)
        addc(i, j, G)
        addc(j, i, G)
    for (i, bp) in topo.cb:
        G = Sym(1) / (R(ra[i], l[i], r[i]) / 2)
        addc(i, bp, G)
        co, _ = rows[bp]
        co[bp] = co[bp] - G           # sum_k G_k (x_k - x_bp) = 0
        co[i] = co.get(i, Sym(0)) + G
    return rows


def numeric_system(cells, params, dt):
    """float64 dense version of `system` for native replay: returns (A, b, N)"""
    topo = Topology(cells)
    n = topo.N + topo.B
    A = np.zeros((n, n))
    b = np.zeros(n)
    r, l, ra, cm, a, c, v = (np.asarray(params[k], dtype=float) for k in ("radius", "length", "axial_resistivity", "capacitance", "a", "c", "v"))
    Rf = lambda i: ra[i] * (l[i] * 1e-4) / (np.pi * (r[i] * 1e-4) ** 2)
    Af = lambda i: 2 * np.pi * r[i] * l[i] * 1e-8
    for i in range(topo.N):
        A[i, i] = 1 + dt * a[i]
        b[i] = v[i] + dt * c[i]

    def addc(i, o, G):
        g = 1000 * G / (Af(i) * cm[i])
        A[i, i] += dt * g
        A[i, o] -= dt * g
    for (i, j) in topo.cc:
        G = 1 / (Rf(i) / 2 + Rf(j) / 2)
        addc(i, j, G)
        addc(j, i, G)
    for (i, bp) in topo.cb:
        G = 1 / (Rf(i) / 2)
        addc(i, bp, G)
        A[bp, bp] -= G
        A[bp, i] += G
    return A, b, topo.N
