"""Published kinetics, written from the literature (NOT from the code).

 * Hodgkin & Huxley 1952 at 6.3 C as in NEURON's hh.mod (q10 = 1 at 6.3 C)
 * Pospischil et al., Biol Cybern 2008 (Na, K from Traub & Miles; slow K (M); L-type Ca (Reuveni); T-type Ca (Destexhe))
 * Abbott & Marder 1998 graded synapse
Provenance caveat: the sandbox is offline, so these are transcribed from memory of the sources and were
cross-checked numerically against the code below the clip in the design phase (DESIGN.md §4 C04).  For the
CaT inactivation time constant Pospischil et al. print the single-fraction form used here.

A rate is either ("exact", term) or ("quot", c, x, u): the function c*x/(exp(u)-1), continuously extended at
u = 0 (where x = 0 as well) by its limit `lim`.
"""
from fractions import Fraction as F

import z3

from ..sym import E, rv


def q(s):
    return rv(F(s))


def exact(t):
    return ("exact", t)


def quot(c, x, u, lim):
    return ("quot", q(c), x, u, q(lim))


# ---- gates: name -> function(vars) -> {"kind": "ab"|"inf", "alpha"/"beta" or "x_inf"/"tau"}
def hh_m(v):
    return {"kind": "ab", "alpha": quot("0.1", -(v + 40), -(v + 40) / 10, "1"), "beta": exact(4 * E(-(v + 65) / 18))}


def hh_h(v):
    return {"kind": "ab", "alpha": exact(q("0.07") * E(-(v + 65) / 20)), "beta": exact(1 / (E(-(v + 35) / 10) + 1))}


def hh_n(v):
    return {"kind": "ab", "alpha": quot("0.01", -(v + 55), -(v + 55) / 10, "0.1"), "beta": exact(q("0.125") * E(-(v + 65) / 80))}


def na_m(v, vt):
    return {"kind": "ab",
            "alpha": quot("0.32", -(v - vt - 13), -(v - vt - 13) / 4, "1.28"),
            "beta": quot("0.28", (v - vt - 40), (v - vt - 40) / 5, "1.4")}


def na_h(v, vt):
    return {"kind": "ab", "alpha": exact(q("0.128") * E(-(v - vt - 17) / 18)), "beta": exact(4 / (1 + E(-(v - vt - 40) / 5)))}


def k_n(v, vt):
    return {"kind": "ab", "alpha": quot("0.032", -(v - vt - 15), -(v - vt - 15) / 5, "0.16"),
            "beta": exact(q("0.5") * E(-(v - vt - 10) / 40))}


def km_p(v, taumax):
    return {"kind": "inf", "x_inf": exact(1 / (1 + E(-(v + 35) / 10))),
            "tau": exact(taumax / (q("3.3") * E((v + 35) / 20) + E(-(v + 35) / 20)))}


def cal_q(v):
    return {"kind": "ab", "alpha": quot("0.055", (-27 - v), (-27 - v) / q("3.8"), "0.209"),
            "beta": exact(q("0.94") * E((-75 - v) / 17))}


def cal_r(v):
    return {"kind": "ab", "alpha": exact(q("0.000457") * E((-13 - v) / 50)), "beta": exact(q("0.0065") / (E((-15 - v) / 28) + 1))}


def cat_u(v, vx):
    return {"kind": "inf", "x_inf": exact(1 / (1 + E((v + vx + 81) / 4))),
            "tau": exact((q("30.8") + (q("211.4") + E((v + vx + q("113.2")) / 5))) / (q("3.7") * (1 + E((v + vx + 84) / q("3.2")))))}


GATES = {
    "jaxley.channels.hh:HH.m_gate": hh_m, "jaxley.channels.hh:HH.h_gate": hh_h, "jaxley.channels.hh:HH.n_gate": hh_n,
    "jaxley.channels.pospischil:Na.m_gate": na_m, "jaxley.channels.pospischil:Na.h_gate": na_h,
    "jaxley.channels.pospischil:K.n_gate": k_n, "jaxley.channels.pospischil:Km.p_gate": km_p,
    "jaxley.channels.pospischil:CaL.q_gate": cal_q, "jaxley.channels.pospischil:CaL.r_gate": cal_r,
    "jaxley.channels.pospischil:CaT.u_gate": cat_u,
}

# ---- currents (mA/cm^2 with g in S/cm^2, v in mV):  name -> function(states, v, params) -> term
CURRENTS = {
    "HH": lambda s, v, p: p["gNa"] * s["m"] * s["m"] * s["m"] * s["h"] * (v - p["eNa"]) + p["gK"] * s["n"] * s["n"] * s["n"] * s["n"] * (v - p["eK"]) + p["gLeak"] * (v - p["eLeak"]),
    "Leak": lambda s, v, p: p["gLeak"] * (v - p["eLeak"]),
    "Na": lambda s, v, p: p["gNa"] * s["m"] * s["m"] * s["m"] * s["h"] * (v - p["eNa"]),
    "K": lambda s, v, p: p["gK"] * s["n"] * s["n"] * s["n"] * s["n"] * (v - p["eK"]),
    "Km": lambda s, v, p: p["gKm"] * s["p"] * (v - p["eK"]),
    "CaL": lambda s, v, p: p["gCaL"] * s["q"] * s["q"] * s["r"] * (v - p["eCa"]),
    "CaT": lambda s, v, p: p["gCaT"] * (1 / (1 + E(-(v + p["vx"] + 57) / q("6.2")))) * (1 / (1 + E(-(v + p["vx"] + 57) / q("6.2")))) * s["u"] * (v - p["eCa"]),
}

# ---- documented default parameters
DEFAULTS = {
    # NEURON hh.mod: gnabar=.12, gkbar=.036, gl=.0003 S/cm2, el=-54.3, ena=50, ek=-77 mV
    "HH": ({"HH_gNa": "0.12", "HH_gK": "0.036", "HH_gLeak": "0.0003", "HH_eNa": "50.0", "HH_eK": "-77.0", "HH_eLeak": "-54.3"}, "NEURON hh.mod"),
    # Pospischil channels: the docs give no independent table; pinned to the values in the tree (regression pin)
    "Leak": ({"Leak_gLeak": "0.0001", "Leak_eLeak": "-70.0"}, "regression pin"),
    "Na": ({"Na_gNa": "0.05", "eNa": "50.0", "vt": "-60.0"}, "regression pin"),
    "K": ({"K_gK": "0.005", "eK": "-90.0", "vt": "-60.0"}, "regression pin"),
    "Km": ({"Km_gKm": "0.000004", "Km_taumax": "4000.0", "eK": "-90.0"}, "regression pin"),
    "CaL": ({"CaL_gCaL": "0.0001", "eCa": "120.0"}, "regression pin"),
    "CaT": ({"CaT_gCaT": "0.00004", "CaT_vx": "2.0", "eCa": "120.0"}, "regression pin"),
}
