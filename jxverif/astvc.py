"""E9 - verification-condition generator over the AST of the real integer / index helper functions.

Unlike the symbolic runtime (E1), which executes the real code objects on one static structure at a time, this engine reads the
*source* of a function from the current tree (inspect.getsource on the imported module, re-read on every run), walks its AST and
generates verification conditions for ALL inputs of ALL sizes: loops are cut by inductive invariants from the sidecar contract
(jxverif/layout_contracts.py), arrays and lists are z3 arrays with a symbolic length, every subscript produces an
index-in-range obligation (Python's negative-index wrap-around is *not* accepted as in range).  z3 discharges every VC.

Python / numpy semantics assumed by the encoding (each is listed in the evidence):
  * ints are mathematical integers (numpy int64 overflow not modelled);
  * a 1-D numpy int array and a Python list of ints are both (z3 Array Int->Int, length); a list of 1-D arrays is
    (Array Int->(Array Int->Int), lengths, length); `np.asarray` is the identity on these values;
  * names are not aliased: every array value is bound to exactly one name (checked syntactically: no `x = y` between array names);
  * numpy primitives by axiom: zeros_like / zeros, max (upper bound attained; argument non-empty is an obligation), fancy gather
    a[idx], `np.where(a == c)[0]` (strictly increasing, sound, complete), `np.sum(a == c)` (count), 2-D arrays are only indexed
    by row and a row is represented by its row number;
  * `for .. in range(lo, hi)` / `enumerate(a)` evaluate their bounds once; loop bodies contain no break / continue / return.
Anything outside this subset raises Unsupported: the caller then falls back to the bounded native evaluation of the executable
form of the same contract (labelled bounded, never counted as proved).
"""
from __future__ import annotations

import ast
import inspect
import textwrap
import time

import z3

I = z3.IntSort()
AII = z3.ArraySort(I, I)


class Unsupported(Exception):
    pass


class Arr:
    kind = "arr"

    def __init__(self, a, n):
        self.a, self.n = a, n

    def __getitem__(self, i):
        return z3.Select(self.a, i)


class Arr2:
    kind = "arr2"

    def __init__(self, a, lens, n):
        self.a, self.lens, self.n = a, lens, n

    def row(self, i):
        return Arr(z3.Select(self.a, i), z3.Select(self.lens, i))


class Rows:
    """2-D array that the code only indexes by row; a row is represented by its row number"""
    kind = "rows"

    def __init__(self, n):
        self.n = n


class ArrEq:
    """the boolean array `a == c`"""

    def __init__(self, arr, val):
        self.arr, self.val = arr, val


_ctr = [0]


def fresh(kind, name):
    _ctr[0] += 1
    k = f"{name}!{_ctr[0]}"
    if kind == "int":
        return z3.Int(k)
    if kind == "arr":
        return Arr(z3.Const(k, AII), z3.Int(k + ".n"))
    if kind == "arr2":
        return Arr2(z3.Const(k, z3.ArraySort(I, AII)), z3.Const(k + ".lens", AII), z3.Int(k + ".n"))
    if kind == "rows":
        return Rows(z3.Int(k + ".n"))
    raise ValueError(kind)


def forall(names, body):
    vs = [z3.Int(n) for n in names]
    return z3.ForAll(vs, body(*vs))


class NS:
    """attribute access to the symbolic state for contract lambdas"""

    def __init__(self, d):
        self.__dict__.update(d)


class State:
    def __init__(self, vals, A):
        self.vals, self.A = dict(vals), list(A)

    def copy(self):
        return State(self.vals, self.A)


def _kind(v):
    if isinstance(v, (Arr, Arr2, Rows)):
        return v.kind
    return "int"


def _assigned(stmts):
    out = set()
    for node in ast.walk(ast.Module(body=list(stmts), type_ignores=[])):
        if isinstance(node, (ast.Assign, ast.AugAssign, ast.For)):
            tgts = node.targets if isinstance(node, ast.Assign) else [node.target]
            for t in tgts:
                for n in ast.walk(t):
                    if isinstance(n, ast.Name) and isinstance(n.ctx, ast.Store):
                        out.add(n.id)
                    if isinstance(n, ast.Subscript) and isinstance(n.value, ast.Name):
                        out.add(n.value.id)
        if isinstance(node, ast.Call) and isinstance(node.func, ast.Attribute) and node.func.attr == "append" and isinstance(node.func.value, ast.Name):
            out.add(node.func.value.id)
        if isinstance(node, (ast.Break, ast.Continue)):
            raise Unsupported("break/continue")
    return out


class VCGen:
    def __init__(self, fn_ast, contract, label):
        self.fn, self.c, self.label = fn_ast, contract, label
        self.obls = []                 # (name, hyps, goal)
        self.loop_no = {}
        k = 0
        for node in ast.walk(fn_ast):
            if isinstance(node, (ast.For, ast.While)):
                self.loop_no[id(node)] = k
                k += 1
        if any(isinstance(n, ast.While) for n in ast.walk(fn_ast)):
            raise Unsupported("while loop")
        if set(self.loop_no.values()) != set(contract.loops.keys()):
            raise Unsupported(f"the function has {k} loops, the contract has invariants for {sorted(contract.loops)}")
        self.sub_no = 0
        self.returned = 0

    # ---- obligations
    def oblige(self, name, st, goal):
        self.obls.append((f"{self.label}:{name}", list(st.A), goal))

    def in_range(self, st, idx, n, what):
        self.sub_no += 1
        self.oblige(f"index in range (no wrap-around) #{self.sub_no} [{what}]", st, z3.And(idx >= 0, idx < n))

    # ---- expressions
    def ev(self, e, st):
        if isinstance(e, ast.Constant):
            if isinstance(e.value, bool) or not isinstance(e.value, int):
                raise Unsupported(f"constant {e.value!r}")
            return z3.IntVal(e.value)
        if isinstance(e, ast.Name):
            if e.id not in st.vals:
                raise Unsupported(f"unbound name {e.id}")
            return st.vals[e.id]
        if isinstance(e, ast.Attribute) and isinstance(e.value, ast.Name) and e.value.id == "self":
            key = "self." + e.attr
            if key not in st.vals:
                raise Unsupported(f"unbound attribute {key}")
            return st.vals[key]
        if isinstance(e, ast.UnaryOp) and isinstance(e.op, ast.USub):
            return -self.ev(e.operand, st)
        if isinstance(e, ast.BinOp):
            l, r = self.ev(e.left, st), self.ev(e.right, st)
            if _kind(l) != "int" or _kind(r) != "int":
                raise Unsupported("array arithmetic")
            if isinstance(e.op, ast.Add):
                return l + r
            if isinstance(e.op, ast.Sub):
                return l - r
            if isinstance(e.op, ast.Mult):
                return l * r
            raise Unsupported(f"operator {type(e.op).__name__}")
        if isinstance(e, ast.Compare) and len(e.ops) == 1:
            l, r = self.ev(e.left, st), self.ev(e.comparators[0], st)
            op = e.ops[0]
            if isinstance(l, Arr) and _kind(r) == "int" and isinstance(op, ast.Eq):
                return ArrEq(l, r)
            if _kind(l) != "int" or _kind(r) != "int":
                raise Unsupported("array comparison")
            return {ast.Eq: lambda: l == r, ast.NotEq: lambda: l != r, ast.Lt: lambda: l < r, ast.LtE: lambda: l <= r,
                    ast.Gt: lambda: l > r, ast.GtE: lambda: l >= r}[type(op)]()
        if isinstance(e, ast.List):
            if e.elts:
                vals = [self.ev(x, st) for x in e.elts]
                if any(_kind(v) != "int" for v in vals):
                    raise Unsupported("nested list literal")
                a = z3.K(I, z3.IntVal(0))
                for i, v in enumerate(vals):
                    a = z3.Store(a, i, v)
                return Arr(a, z3.IntVal(len(vals)))
            return ("emptylist",)
        if isinstance(e, ast.Subscript):
            # np.where(a == c)[0]
            if isinstance(e.value, ast.Call) and self._callname(e.value) == "np.where" and isinstance(e.slice, ast.Constant) and e.slice.value == 0:
                cond = self.ev(e.value.args[0], st)
                if not isinstance(cond, ArrEq) or len(e.value.args) != 1:
                    raise Unsupported("np.where form")
                return self.prim_where(cond, st)
            v = self.ev(e.value, st)
            idx = self.ev(e.slice, st)
            src = ast.unparse(e)
            if isinstance(v, Arr) and _kind(idx) == "int":
                self.in_range(st, idx, v.n, src)
                return v[idx]
            if isinstance(v, Arr) and isinstance(idx, Arr):
                return self.prim_gather(v, idx, st, src)
            if isinstance(v, Rows) and _kind(idx) == "int":
                self.in_range(st, idx, v.n, src)
                return idx
            if isinstance(v, Rows) and isinstance(idx, Arr):
                self.sub_no += 1
                self.oblige(f"index in range (no wrap-around) #{self.sub_no} [{src}]", st,
                            forall(["k_"], lambda k: z3.Implies(z3.And(k >= 0, k < idx.n), z3.And(idx[k] >= 0, idx[k] < v.n))))
                return idx
            raise Unsupported(f"subscript {src}")
        if isinstance(e, ast.Call):
            return self.call(e, st)
        raise Unsupported(f"expression {ast.unparse(e)}")

    @staticmethod
    def _callname(c):
        f = c.func
        if isinstance(f, ast.Name):
            return f.id
        if isinstance(f, ast.Attribute) and isinstance(f.value, ast.Name):
            return f"{f.value.id}.{f.attr}"
        return ast.unparse(f)

    def call(self, e, st):
        name = self._callname(e)
        if e.keywords and name not in ("np.zeros",):
            raise Unsupported(f"keywords in {name}")
        if name == "len":
            v = self.ev(e.args[0], st)
            if _kind(v) == "int":
                raise Unsupported("len of int")
            return v.n
        if name in ("np.asarray", "np.array", "jnp.asarray"):
            v = self.ev(e.args[0], st)
            if isinstance(v, tuple):
                return Arr(z3.K(I, z3.IntVal(0)), z3.IntVal(0))
            if _kind(v) == "int":
                raise Unsupported("asarray of a scalar")
            return v
        if name == "np.zeros_like":
            v = self.ev(e.args[0], st)
            if not isinstance(v, Arr):
                raise Unsupported("zeros_like")
            return Arr(z3.K(I, z3.IntVal(0)), v.n)
        if name == "np.max":
            v = self.ev(e.args[0], st)
            if not isinstance(v, Arr):
                raise Unsupported("np.max")
            self.sub_no += 1
            self.oblige(f"np.max of a non-empty array #{self.sub_no}", st, v.n > 0)
            m, j0 = fresh("int", "max"), fresh("int", "argmax")
            st.A += [forall(["j_"], lambda j: z3.Implies(z3.And(j >= 0, j < v.n), v[j] <= m)), j0 >= 0, j0 < v.n, v[j0] == m]
            return m
        if name == "np.sum":
            c = self.ev(e.args[0], st)
            if not isinstance(c, ArrEq):
                raise Unsupported("np.sum form")
            return self.prim_count(c, st)
        raise Unsupported(f"call {name}")

    def prim_gather(self, v, idx, st, src):
        self.sub_no += 1
        self.oblige(f"index in range (no wrap-around) #{self.sub_no} [{src}]", st,
                    forall(["k_"], lambda k: z3.Implies(z3.And(k >= 0, k < idx.n), z3.And(idx[k] >= 0, idx[k] < v.n))))
        r = fresh("arr", "gather")
        st.A += [r.n == idx.n, forall(["k_"], lambda k: z3.Implies(z3.And(k >= 0, k < idx.n), r[k] == v[idx[k]]))]
        return r

    def prim_where(self, c, st):
        a, val = c.arr, c.val
        r = fresh("arr", "where")
        _ctr[0] += 1
        pos = z3.Function(f"pos!{_ctr[0]}", I, I)
        st.A += [r.n >= 0, r.n <= a.n,
                 forall(["k_"], lambda k: z3.Implies(z3.And(k >= 0, k < r.n), z3.And(r[k] >= 0, r[k] < a.n, a[r[k]] == val))),
                 forall(["k_", "m_"], lambda k, m: z3.Implies(z3.And(k >= 0, k < m, m < r.n), r[k] < r[m])),
                 forall(["j_"], lambda j: z3.Implies(z3.And(j >= 0, j < a.n, a[j] == val), z3.And(pos(j) >= 0, pos(j) < r.n, r[pos(j)] == j)))]
        return r

    def prim_count(self, c, st):
        a, val = c.arr, c.val
        _ctr[0] += 1
        cnt = z3.Function(f"count!{_ctr[0]}", I, I)       # cnt(k) = #{j < k : a[j] == val}
        st.A += [cnt(0) == 0, forall(["k_"], lambda k: z3.Implies(z3.And(k >= 0, k < a.n), cnt(k + 1) == cnt(k) + z3.If(a[k] == val, 1, 0)))]
        st.vals.setdefault("__counts", [])
        st.vals["__counts"] = st.vals["__counts"] + [(a, val, cnt)]
        return cnt(a.n)

    # ---- statements
    def run(self, stmts, st, k):
        if not stmts:
            return k(st)
        s, rest = stmts[0], stmts[1:]
        if isinstance(s, ast.Expr) and isinstance(s.value, ast.Constant):
            return self.run(rest, st, k)
        if isinstance(s, ast.Return):
            self.returned += 1
            res = self.ev(s.value, st) if s.value is not None else None
            ns = NS(self._ns(st))
            for i, (nm, g) in enumerate(self.c.ensures(ns, res)):
                self.oblige(f"ensures[{nm}]" + (f" (return #{self.returned})" if self.returned > 1 else ""), st, g)
            return None
        if isinstance(s, ast.Assign) and len(s.targets) == 1:
            t = s.targets[0]
            if isinstance(t, ast.Name):
                if isinstance(s.value, ast.Name) and _kind(st.vals.get(s.value.id, 0)) != "int":
                    raise Unsupported("aliasing assignment between array names")
                v = self.ev(s.value, st)
                if isinstance(v, tuple):          # empty list literal: kind from the contract
                    kind = self.c.locals.get(t.id, "arr")
                    v = Arr(z3.K(I, z3.IntVal(0)), z3.IntVal(0)) if kind == "arr" else Arr2(z3.K(I, z3.K(I, z3.IntVal(0))), z3.K(I, z3.IntVal(0)), z3.IntVal(0))
                if isinstance(v, ArrEq):
                    raise Unsupported("boolean array bound to a name")
                st.vals[t.id] = v
                return self.run(rest, st, k)
            if isinstance(t, ast.Subscript) and isinstance(t.value, ast.Name):
                arr = st.vals.get(t.value.id)
                idx, v = self.ev(t.slice, st), self.ev(s.value, st)
                if not isinstance(arr, Arr) or _kind(idx) != "int" or _kind(v) != "int":
                    raise Unsupported(f"store {ast.unparse(t)}")
                self.in_range(st, idx, arr.n, ast.unparse(t) + " (store)")
                st.vals[t.value.id] = Arr(z3.Store(arr.a, idx, v), arr.n)
                return self.run(rest, st, k)
            raise Unsupported(f"assignment target {ast.unparse(t)}")
        if isinstance(s, ast.AugAssign) and isinstance(s.target, ast.Subscript) and isinstance(s.target.value, ast.Name) and isinstance(s.op, (ast.Add, ast.Sub)):
            t = s.target
            arr = st.vals.get(t.value.id)
            idx, v = self.ev(t.slice, st), self.ev(s.value, st)
            if not isinstance(arr, Arr) or _kind(idx) != "int" or _kind(v) != "int":
                raise Unsupported(f"store {ast.unparse(t)}")
            self.in_range(st, idx, arr.n, ast.unparse(t) + " (update)")
            new = arr[idx] + v if isinstance(s.op, ast.Add) else arr[idx] - v
            st.vals[t.value.id] = Arr(z3.Store(arr.a, idx, new), arr.n)
            return self.run(rest, st, k)
        if isinstance(s, ast.Expr) and isinstance(s.value, ast.Call) and isinstance(s.value.func, ast.Attribute) and s.value.func.attr == "append" \
                and isinstance(s.value.func.value, ast.Name) and len(s.value.args) == 1:
            nm = s.value.func.value.id
            lst, v = st.vals.get(nm), self.ev(s.value.args[0], st)
            if isinstance(lst, Arr) and _kind(v) == "int":
                st.vals[nm] = Arr(z3.Store(lst.a, lst.n, v), lst.n + 1)
            elif isinstance(lst, Arr2) and isinstance(v, Arr):
                st.vals[nm] = Arr2(z3.Store(lst.a, lst.n, v.a), z3.Store(lst.lens, lst.n, v.n), lst.n + 1)
            else:
                raise Unsupported(f"append to {nm}")
            return self.run(rest, st, k)
        if isinstance(s, ast.If):
            c = self.ev(s.test, st)
            if not z3.is_bool(c):
                raise Unsupported("non-boolean test")
            s1, s2 = st.copy(), st.copy()
            s1.A.append(c)
            s2.A.append(z3.Not(c))
            self.run(list(s.body) + rest, s1, k)
            self.run(list(s.orelse) + rest, s2, k)
            return None
        if isinstance(s, ast.For) and not s.orelse:
            return self.do_for(s, st, rest, k)
        raise Unsupported(f"statement {type(s).__name__}: {ast.unparse(s)[:60]}")

    def _ns(self, st):
        d = {}
        for kk, v in st.vals.items():
            d[kk.replace("self.", "self_")] = v
        return d

    def havoc(self, st, names):
        out = st.copy()
        for n in names:
            kind = _kind(st.vals[n]) if n in st.vals else self.c.locals.get(n)
            if not kind:
                out.vals.pop(n, None)
                continue
            v = out.vals[n] = fresh(kind, n)
            # type invariant of every array value the engine constructs: lengths are non-negative
            if kind in ("arr", "rows", "arr2"):
                out.A.append(v.n >= 0)
            if kind == "arr2":
                out.A.append(forall(["r_"], lambda r, v=v: z3.Implies(z3.And(r >= 0, r < v.n), z3.Select(v.lens, r) >= 0)))
        return out

    def do_for(self, node, st, rest, k):
        no = self.loop_no[id(node)]
        inv = self.c.loops[no]
        mods = _assigned(node.body)
        for n in ast.walk(ast.Module(body=list(node.body), type_ignores=[])):
            if isinstance(n, ast.Return):
                raise Unsupported("return inside a loop")
        it = node.iter
        elem = None
        if isinstance(it, ast.Call) and self._callname(it) == "range" and isinstance(node.target, ast.Name):
            args = [self.ev(a, st) for a in it.args]
            if len(args) == 1:
                lo, hi = z3.IntVal(0), args[0]
            elif len(args) == 2:
                lo, hi = args
            else:
                raise Unsupported("range with a step")
            ivar = node.target.id
        elif isinstance(it, ast.Call) and self._callname(it) == "enumerate" and isinstance(node.target, ast.Tuple) and len(node.target.elts) == 2 \
                and isinstance(it.args[0], ast.Name):
            arrname = it.args[0].id
            arr = st.vals.get(arrname)
            if not isinstance(arr, Arr) or arrname in mods:
                raise Unsupported("enumerate over a modified / non-array value")
            lo, hi = z3.IntVal(0), arr.n
            ivar, elem = node.target.elts[0].id, node.target.elts[1].id
        else:
            raise Unsupported(f"loop over {ast.unparse(it)}")
        mods = set(mods) - {ivar, elem}
        fin = z3.If(hi > lo, hi, lo)
        tag = f"loop#{no}"

        def inv_at(s_, i):
            s2 = s_.copy()
            s2.vals[ivar] = i
            s2.vals.pop(elem, None)
            return inv(NS(self._ns(s2)))
        # entry
        for nm, g in inv_at(st, lo):
            self.oblige(f"{tag}:invariant[{nm}] holds on entry", st, g)
        # preservation
        s1 = self.havoc(st, mods)
        i = fresh("int", ivar)
        s1.A += [lo <= i, i < hi] + [g for _, g in inv_at(s1, i)]
        s1.vals[ivar] = i
        if elem:
            s1.vals[elem] = s1.vals[arrname][i]

        def after_body(s2):
            for nm, g in inv_at(s2, i + 1):
                self.oblige(f"{tag}:invariant[{nm}] preserved", s2, g)
        self.run(list(node.body), s1, after_body)
        # exit
        s3 = self.havoc(st, mods)
        s3.A += [g for _, g in inv_at(s3, fin)]
        s3.vals.pop(ivar, None)
        if elem:
            s3.vals.pop(elem, None)
        return self.run(rest, s3, k)


# ---------------------------------------------------------------------------------------------------------------------
def get_source_ast(qualname, mutate=None):
    """-> (FunctionDef, source text) of the function in the CURRENT tree; mutate = (old, new) textual in-memory mutation (canary)"""
    import importlib
    modname, fname = qualname.rsplit(".", 1)
    mod = importlib.import_module(modname)
    fn = getattr(mod, fname)
    src = textwrap.dedent(inspect.getsource(fn))
    if mutate is not None:
        old, new = mutate
        if src.count(old) != 1:
            raise LookupError(f"canary: pattern {old!r} not found in {qualname}")
        src = src.replace(old, new)
    tree = ast.parse(src)
    fd = tree.body[0]
    if not isinstance(fd, ast.FunctionDef):
        raise Unsupported("not a function")
    return fd, src, fn


def generate(contract, mutate=None):
    fd, src, fn = get_source_ast(contract.target, mutate)
    params = [a.arg for a in fd.args.args]
    if fd.args.vararg or fd.args.kwarg or fd.args.kwonlyargs:
        raise Unsupported("signature")
    if list(params) != list(contract.params.keys()):
        raise Unsupported(f"parameters {params} differ from the contract's {list(contract.params)}")
    vals = {}
    for p, kind in contract.params.items():
        v = fresh(kind, p)
        vals[p] = v
        vals["IN_" + p] = v
    st = State(vals, [])
    ns = NS({k.replace("self.", "self_"): v for k, v in vals.items()})
    for p, v in vals.items():
        if _kind(v) != "int":
            st.A.append(v.n >= 0)
    st.A += [g for _, g in contract.requires(ns)]
    g = VCGen(fd, contract, contract.target.replace("jaxley.utils.", "").replace("jaxley.", ""))
    req = list(st.A)

    def fell_off(s_):
        raise Unsupported("function may end without return")
    g.run(list(fd.body), st, fell_off)
    return g.obls, req, src


def discharge(obls, timeout_ms=20000, stop_at_first_failure=False):
    out = []
    for name, hyps, goal in obls:
        if stop_at_first_failure and out and out[-1]["status"] != "proved":
            break
        t0 = time.time()
        s = z3.Solver()
        s.set("timeout", timeout_ms)
        for h in hyps:
            s.add(h)
        s.add(z3.Not(goal))
        r = s.check()
        model = ""
        if r == z3.sat:
            try:
                model = str(s.model())[:1500]
            except Exception:
                model = ""
        if r == z3.unknown:
            # second attempt: different quantifier-instantiation strategy
            s2 = z3.Solver()
            s2.set("timeout", timeout_ms)
            s2.set("smt.mbqi", False)
            for h in hyps:
                s2.add(h)
            s2.add(z3.Not(goal))
            r = s2.check()
            if r == z3.sat:       # without MBQI a sat answer is only "no instantiation refutes it": not a refutation
                r = z3.unknown
        out.append({"name": name, "status": "proved" if r == z3.unsat else ("refuted" if r == z3.sat else "unknown"), "backend": "z3",
                    "time_s": round(time.time() - t0, 3), "model": {}, "detail": model})
    return out


def requires_satisfiable(req, timeout_ms=10000):
    s = z3.Solver()
    s.set("timeout", timeout_ms)
    for h in req:
        s.add(h)
    return str(s.check())
