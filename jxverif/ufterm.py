"""E4 - uninterpreted-step engine for the time axis (integrate, build_init_and_step_fn, add_stimuli, add_clamps,
nested_checkpoint_scan, _inner_nested_scan).

The REAL code objects of jaxley/integrate.py and jaxley/utils/jax_utils.py run with
   module.step / get_all_parameters / get_all_states   replaced by contract stubs whose results are opaque terms
   lax.scan as a Python loop, jax.checkpoint as identity
so a recording is a term such as  get(step(step(S0, ext_0), ext_1), "v", 3)  and statements about time alignment,
checkpoint layouts and continuation are equalities between terms: valid for EVERY step function, model and stimulus
value.  External inputs are opaque symbols named by (key, row, sample).
"""
from __future__ import annotations

import copy
import math
import sys
import types

import numpy as np
import pandas as pd


class T:
    """hash-consed opaque term"""
    __slots__ = ("a",)

    def __init__(self, *a):
        self.a = tuple(a)

    def __eq__(self, o):
        return isinstance(o, T) and self.a == o.a

    def __ne__(self, o):
        return not self.__eq__(o)

    def __hash__(self):
        return hash(self.a)

    def __repr__(self):
        return str(self.a[0]) + ("(" + ",".join(map(repr, self.a[1:])) + ")" if len(self.a) > 1 else "")

    # opaque: no arithmetic, no truth value
    def __bool__(self):
        raise TypeError("control flow on an opaque value")

    __array_ufunc__ = None


class TArr(np.ndarray):
    """array of opaque terms / plain numbers"""

    def __new__(cls, a):
        return np.asarray(a, dtype=object).view(cls)

    def __array_finalize__(self, obj):
        pass

    @property
    def T(self):
        return np.asarray(self).T.view(TArr)

    def reshape(self, *shape, **k):
        return np.asarray(self).reshape(*shape, **k).view(TArr)


class State(dict):
    """opaque state pytree: state[key][index] -> get(term, key, index)"""

    def __init__(self, term):
        super().__init__()
        self.term = term

    def __getitem__(self, k):
        return StateVec(self.term, k)

    def __contains__(self, k):
        return True

    def keys(self):
        raise TypeError("the keys of an opaque state are not enumerable")

    def __repr__(self):
        return f"State({self.term!r})"


class StateVec:
    def __init__(self, term, k):
        self.term, self.k = term, k

    def __getitem__(self, i):
        if isinstance(i, (list, tuple, np.ndarray)) or type(i).__module__.split(".")[0] in ("jax", "jaxlib"):
            idx = np.asarray(i)
            out = np.empty(idx.shape, dtype=object)
            for ix in np.ndindex(idx.shape):
                out[ix] = T("get", self.term, self.k, int(idx[ix]))
            return out.view(TArr)
        return T("get", self.term, self.k, int(i))


# ---- shim of the jnp / jax surface used by integrate.py and jax_utils.py --------------------------------------------
def _obj(x):
    if isinstance(x, TArr):
        return np.asarray(x)
    if type(x).__module__.split(".")[0] in ("jax", "jaxlib"):
        x = np.asarray(x)
    return np.asarray(x, dtype=object)


def asarray(x, *a, **k):
    if isinstance(x, TArr):
        return x
    return TArr(_obj(x))


def concatenate(xs, axis=0):
    parts = [_obj(x) for x in xs]
    return np.concatenate(parts, axis=axis).view(TArr)


def zeros(shape, *a, **k):
    return TArr(np.zeros(shape, dtype=object) + 0.0)


def zeros_like(x, *a, **k):
    return TArr(np.zeros(np.shape(_obj(x)), dtype=object) + 0.0)


def ones(shape, *a, **k):
    return TArr(np.zeros(shape, dtype=object) + 1.0)


def expand_dims(x, axis):
    return np.expand_dims(_obj(x), axis).view(TArr)


class _JnpShim:
    """jnp as seen by integrate.py / jax_utils.py under the engine: the listed functions, and - for anything else - the numpy
    function of the same name applied to object arrays.  Purely STRUCTURAL functions (resize, pad, stack, reshape, tile, roll,
    flip, take, transpose, ...) work on opaque terms as they do on numbers; anything that computes with the values raises on an
    opaque term (no arithmetic, no truth value) and ends as an engine limit."""
    ndarray = object

    def __init__(self, **fns):
        self.__dict__.update(fns)

    def __getattr__(self, name):
        f = getattr(np, name, None)
        if f is None or not callable(f):
            raise AttributeError(name)

        def call(*a, **k):
            conv = lambda x: _obj(x) if isinstance(x, (TArr, np.ndarray, list)) or type(x).__module__.split(".")[0] in ("jax", "jaxlib") else x
            r = f(*[conv(x) for x in a], **{kk: conv(v) for kk, v in k.items() if kk not in ("dtype",)})
            return r.view(TArr) if isinstance(r, np.ndarray) else r
        return call


jnp = _JnpShim(asarray=asarray, array=asarray, concatenate=concatenate, zeros=zeros, zeros_like=zeros_like, ones=ones, expand_dims=expand_dims)


def tree_map(f, *trees):
    x = trees[0]
    if isinstance(x, State):
        return f(*trees)
    if isinstance(x, dict):
        return {k: tree_map(f, *[tr[k] for tr in trees]) for k in x}
    if isinstance(x, (tuple, list)) and not isinstance(x, T):
        return type(x)(tree_map(f, *[tr[i] for tr in trees]) for i in range(len(x)))
    return f(*trees)


SCAN_CALLS = []


def scan(f, init, xs=None, length=None, **kw):
    carry = init
    outs = []
    if xs:
        n_xs = len(next(iter(xs.values())))
        if length is not None and int(length) != n_xs:
            raise ValueError(f"scan: length {length} does not match the leading axis of xs ({n_xs})")
    n = int(length) if length is not None else n_xs
    SCAN_CALLS.append(n)
    for i in range(n):
        xi = tree_map(lambda a: a[i], xs) if xs else {}
        carry, o = f(tree_map(lambda leaf: leaf, carry), xi)      # scan rebuilds the carry pytree: f cannot mutate the caller's containers
        outs.append(o)
    if not outs:
        return carry, TArr([])
    stacked = tree_map(lambda *os: np.stack([_obj(o) for o in os]).view(TArr), *outs)
    return carry, stacked


def checkpoint(f, **k):
    return f


jaxshim = types.SimpleNamespace(lax=types.SimpleNamespace(scan=scan), checkpoint=checkpoint,
                                tree_util=types.SimpleNamespace(tree_map=tree_map))


def reglob(fn, over):
    g = dict(fn.__globals__)
    g.update(over)
    new = types.FunctionType(fn.__code__, g, fn.__name__, fn.__defaults__, fn.__closure__)
    new.__kwdefaults__ = dict(fn.__kwdefaults__) if fn.__kwdefaults__ else None
    return new


def _reglob_module(mod, over, peers=()):
    """Every function DEFINED in `mod` gets one shared copy of the module's globals with `over` applied, and the copies see
    each other under their own names (so a private helper that a refactoring extracts or inlines needs no entry here).
    `peers`: dicts of already re-globalised functions of other modules; a global of `mod` that is the original of one of them is
    replaced by the re-globalised version."""
    import inspect
    import jax
    g = dict(mod.__dict__)
    g.update(over)
    originals = {}
    for peer in peers:
        for fn in peer.values():
            originals[id(fn.__wrapped_original__)] = fn
    for k, v in list(g.items()):
        if id(v) in originals:
            g[k] = originals[id(v)]
    out = {}
    for name, fn in list(mod.__dict__.items()):
        if inspect.isfunction(fn) and fn.__module__ == mod.__name__:
            new = types.FunctionType(fn.__code__, g, fn.__name__, fn.__defaults__, fn.__closure__)
            kd = dict(fn.__kwdefaults__) if fn.__kwdefaults__ else None
            if kd:
                for kk, vv in kd.items():
                    if vv is jax.lax.scan:
                        kd[kk] = scan
                    elif vv is jax.checkpoint:
                        kd[kk] = checkpoint
            new.__kwdefaults__ = kd
            new.__wrapped_original__ = fn
            g[name] = new
            out[name] = new
    return out


def real_functions():
    """re-globalised real functions of integrate.py / jax_utils.py (read from /repo's working tree on every run): ALL functions
    defined in the two modules, with jnp / jax replaced by the shim, lax.scan by a loop and jax.checkpoint by the identity"""
    import jaxley  # noqa
    import jaxley.utils.jax_utils as JU
    JI = sys.modules["jaxley.integrate"]
    ju = _reglob_module(JU, {"jax": jaxshim, "jnp": jnp})
    ji = _reglob_module(JI, {"jnp": jnp}, peers=(ju,))
    out = dict(ju)
    out.update(ji)
    return out


# ---- external inputs as symbols -------------------------------------------------------------------------------------
class Symbolizer:
    """Waveforms are passed through the real bookkeeping API as unique float tags; afterwards each tag is replaced by
    the opaque symbol it stands for."""

    def __init__(self):
        self.next = 1000.0
        self.names = {}

    def waveform(self, name, n_rows, n_samples, offset=0):
        """-> float array (n_rows, n_samples) of unique tags; symbol for tag = x(name,row,offset+k)"""
        a = np.zeros((n_rows, n_samples))
        for r in range(n_rows):
            for k in range(n_samples):
                self.next += 1.0
                a[r, k] = self.next
                self.names[self.next] = T("x", name, r, k + offset)
        return a

    def sym(self, arr):
        a = np.asarray(arr, dtype=float)
        out = np.empty(a.shape, dtype=object)
        for ix in np.ndindex(a.shape):
            v = float(a[ix])
            out[ix] = self.names.get(v, v)
        return out.view(TArr)


def canon_ext(external_inds, externals):
    """canonical form of the inputs of one step: per key the multiset of (target index, value)"""
    out = []
    for k in sorted(externals.keys()):
        vals = list(np.asarray(_obj(externals[k])).reshape(-1))
        inds = list(np.asarray(external_inds[k]).reshape(-1))
        if len(vals) != len(inds):
            out.append((k, "LENGTH-MISMATCH", len(inds), len(vals)))
            continue
        pairs = sorted(((int(i), v) for i, v in zip(inds, vals)), key=lambda p: (p[0], repr(p[1])))
        out.append((k, tuple(pairs)))
    return tuple(out)


class E4Module:
    """contract stub of a Module for integrate: the tables of the REAL module, opaque step/get_all_*; every attribute
    write is logged (frame)."""

    def __init__(self, real, symbolizer: Symbolizer):
        object.__setattr__(self, "_real", real)
        object.__setattr__(self, "_writes", [])
        object.__setattr__(self, "_calls", [])
        ext = {k: symbolizer.sym(v) for k, v in real.externals.items()}
        object.__setattr__(self, "externals", ext)
        object.__setattr__(self, "external_inds", {k: np.asarray(v) for k, v in real.external_inds.items()})
        object.__setattr__(self, "_ext0", {k: np.array(v, dtype=object, copy=True) for k, v in ext.items()})
        object.__setattr__(self, "_inds0", {k: np.array(v, copy=True) for k, v in self.external_inds.items()})

    def __getattr__(self, name):
        return getattr(object.__getattribute__(self, "_real"), name)

    def __setattr__(self, name, v):
        self._writes.append(name)
        object.__setattr__(self, name, v)

    def to_jax(self):
        self._calls.append("to_jax")

    def get_all_parameters(self, pstate, voltage_solver):
        self._calls.append("get_all_parameters")
        return T("P", _freeze(pstate), voltage_solver)

    def get_all_states(self, pstate, all_params, delta_t):
        self._calls.append("get_all_states")
        return State(T("S0", _freeze(pstate), all_params, delta_t))

    def step(self, state, delta_t, external_inds, externals, params, solver, voltage_solver):
        self._calls.append("step")
        if not isinstance(state, State):
            raise TypeError("step received something that is not a state")
        return State(T("step", state.term, canon_ext(external_inds, externals), delta_t, params, solver, voltage_solver))

    def frame_ok(self):
        """externals / external_inds of the module unchanged (same keys, same content)"""
        e, i = self.externals, self.external_inds
        if sorted(e) != sorted(self._ext0) or sorted(i) != sorted(self._inds0):
            return False
        for k in e:
            a, b = np.asarray(e[k], dtype=object), self._ext0[k]
            if a.shape != b.shape or not all(x == y for x, y in zip(a.reshape(-1), b.reshape(-1))):
                return False
            a, b = np.asarray(i[k]), self._inds0[k]
            if a.shape != b.shape or not np.array_equal(a, b):
                return False
        return True


def _freeze(x):
    if isinstance(x, dict):
        return tuple(sorted((k, _freeze(v)) for k, v in x.items()))
    if isinstance(x, (list, tuple)):
        return tuple(_freeze(v) for v in x)
    if isinstance(x, np.ndarray):
        return tuple(_freeze(v) for v in x.tolist())
    if type(x).__module__.split(".")[0] in ("jax", "jaxlib"):
        return _freeze(np.asarray(x))
    return x


def spec_states(S0, n_steps, ext_at, delta_t, params, solver, voltage_solver):
    """S_0 .. S_n with S_{k+1} = step(S_k, inputs of step k)"""
    s = S0
    out = [s]
    for k in range(n_steps):
        s = T("step", s, ext_at(k), delta_t, params, solver, voltage_solver)
        out.append(s)
    return out
