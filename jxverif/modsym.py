"""Module-level symbolic execution: the real `to_jax -> get_all_parameters -> get_all_states -> step` chain on a real
module whose tables hold symbols.

Every non-NaN float cell of a parameter/state column of `.nodes` / `.edges` becomes the symbol `col[row]`; NaN cells
become poison symbols (`NaN!k`): a result that mentions one depends on an absent parameter.  The voltage solver may be
replaced by a contract stub (its body is verified under C01): the stub records the arguments it receives - the
assembled membrane terms - and returns fresh symbols.
"""
from __future__ import annotations

import numpy as np
import pandas as pd
import z3

from .sym import Ctx, POISON_PREFIX, Proxy, Runtime, Sym, SymArray

GEOM = ("radius", "length", "axial_resistivity", "capacitance")
SKIP_NODE_COLS = ("x", "y", "z")
SKIP_EDGE_COLS = ("pre_locs", "post_locs")


class SymDF(pd.DataFrame):
    """DataFrame with symbolic cells: groupby (used by the repo only for index bookkeeping such as the rank of an edge
    within its type) operates on the columns that hold no symbols"""

    @property
    def _constructor(self):
        return SymDF

    def groupby(self, by=None, *a, **k):
        keep = [c for c in self.columns if not any(isinstance(x, Sym) for x in self[c].to_numpy()[:50])]
        return pd.DataFrame(self[keep]).groupby(by, *a, **k)


def symbolise(df: pd.DataFrame, skip=(), prefix=""):
    """float cells -> symbols named col[row label]; NaN stays NaN (becomes poison when lifted)"""
    df = df.copy()
    for col in df.columns:
        if col in skip:
            continue
        if df[col].dtype.kind == "f":
            vals = []
            for i, x in zip(df.index, df[col]):
                vals.append(Sym(z3.Real(f"{prefix}{col}[{i}]")) if not (isinstance(x, float) and np.isnan(x)) and not pd.isna(x) else np.nan)
            df[col] = pd.Series(vals, index=df.index, dtype=object)
    return SymDF(df)


class SymModule:
    """a real module + symbolic tables, executed through the Proxy"""

    def __init__(self, module, stub_solver=True, nodes=None, edges=None):
        self.module = module
        self.rt = Runtime()
        self.solver_calls = []
        self.fresh = 0
        if stub_solver:
            import jaxley.solver_voltage as SV
            self.rt.stub(SV.step_voltage_implicit_with_jaxley_spsolve, self._stub("jaxley"))
            self.rt.stub(SV.step_voltage_implicit_with_jax_spsolve, self._stub("sparse"))
            self.rt.stub(SV.step_voltage_explicit, self._stub("explicit"))
        self.nodes = nodes if nodes is not None else symbolise(module.nodes, SKIP_NODE_COLS)
        self.edges = edges if edges is not None else symbolise(module.edges, SKIP_EDGE_COLS)
        self.px = Proxy(module, self.rt, extra={"nodes": self.nodes, "edges": self.edges})

    def _stub(self, kind):
        def stub(**kw):
            n = len(kw["voltages"])
            self.fresh += 1
            H = SymArray(np.asarray([Sym(z3.Real(f"vnew{self.fresh}[{i}]")) for i in range(n)], dtype=object))
            self.solver_calls.append((kind, kw, H))
            return H
        return stub

    def prepare(self, pstate=(), dt=None, voltage_solver="jaxley.thomas"):
        dt = dt if dt is not None else Sym(z3.Real("dt"))
        self.dt = dt
        self.px.to_jax()
        self.params = self.px.get_all_parameters(list(pstate), voltage_solver=voltage_solver)
        self.states = self.px.get_all_states(list(pstate), self.params, dt)
        return self.params, self.states

    def step(self, externals=None, external_inds=None, solver="bwd_euler", voltage_solver="jaxley.thomas", states=None):
        externals = externals or {}
        external_inds = external_inds or {}
        st = dict(states if states is not None else self.states)
        return self.px.step(st, self.dt, external_inds, externals, self.params, solver=solver, voltage_solver=voltage_solver)


def mentions_poison(s):
    """does the term mention a NaN-cell symbol"""
    seen = set()
    st = [s.e if isinstance(s, Sym) else s]
    while st:
        e = st.pop()
        if e.get_id() in seen:
            continue
        seen.add(e.get_id())
        if z3.is_const(e) and e.decl().kind() == z3.Z3_OP_UNINTERPRETED and e.decl().name().startswith(POISON_PREFIX):
            return True
        st.extend(e.children())
    return False


def free_vars(s):
    seen, out = set(), set()
    st = [s.e if isinstance(s, Sym) else s]
    while st:
        e = st.pop()
        if e.get_id() in seen:
            continue
        seen.add(e.get_id())
        if z3.is_const(e) and e.decl().kind() == z3.Z3_OP_UNINTERPRETED:
            out.add(e.decl().name())
        st.extend(e.children())
    return out
