"""Sidecar contracts for the numerical kernels: solver_gate, channels (hh, pospischil), synapses.

Top-level postconditions are taken from the property statements (C03: finite, in [0,1], closed-form exponential
update, toward-never-past; C14: fixed point); helper pre/postconditions from the code and its call sites.
"""
from __future__ import annotations

import z3

from .contracts import Contract, Registry
from .sym import E, Sym, sexp, smin

# ---- domains (C03) ---------------------------------------------------------------------------------------
V_LO, V_HI = -200, 200
DT_HI = 1000


def dom_v(v): return [v.e >= V_LO, v.e <= V_HI]
def dom_dt(dt): return [dt.e > 0, dt.e <= DT_HI]
def dom01(x): return [x.e >= 0, x.e <= 1]
def dom_vt(vt): return [vt.e >= -80, vt.e <= -40]
def dom_vx(vx): return [vx.e >= -10, vx.e <= 10]
def dom_taumax(t): return [t.e >= 100, t.e <= 10000]
def dom_kminus(k): return [k.e >= z3.RealVal("1/1000"), k.e <= 10]


def between(x, new, target):
    """new lies between x and target (moves toward, never past)"""
    return z3.Or(z3.And(x <= new, new <= target), z3.And(target <= new, new <= x))


def in01(e):
    return z3.And(e >= 0, e <= 1)


REG = Registry()
S = Sym.var

# ---- solver_gate -----------------------------------------------------------------------------------------
REG.add(Contract(
    "jaxley.solver_gate:save_exp",
    inputs=lambda: {"x": S("x"), "max_value": Sym(20)},
    requires=lambda a: [a["max_value"].e == 20],
    ensures={"spec:exp(min(x,max))": lambda a, r: r.e == E(z3.If(a["x"].e <= 20, a["x"].e, 20)),
             "positive": lambda a, r: r.e > 0},
    spec=lambda a: sexp(smin(a["x"], a["max_value"])),
    boxes=lambda a: {"x": (-1000, 1000)},
))


def _expo_inputs():
    return {"x": S("x"), "dt": S("dt"), "x_inf": S("x_inf"), "x_tau": S("x_tau")}


def _closed(x, xinf, dt, tau):
    return xinf + (x - xinf) * E(-dt / tau)


REG.add(Contract(
    "jaxley.solver_gate:exponential_euler",
    inputs=_expo_inputs,
    requires=lambda a: dom01(a["x"]) + dom01(a["x_inf"]) + [a["dt"].e > 0, a["x_tau"].e > 0],
    ensures={
        "closed_form": lambda a, r: r.e == _closed(a["x"].e, a["x_inf"].e, a["dt"].e, a["x_tau"].e),
        "in[0,1]": lambda a, r: in01(r.e),
        "toward_not_past": lambda a, r: between(a["x"].e, r.e, a["x_inf"].e),
    },
    spec=lambda a: a["x_inf"] + (a["x"] - a["x_inf"]) * sexp(-a["dt"] / a["x_tau"]),
    callees=("jaxley.solver_gate:save_exp",),
    boxes=lambda a: {"x": (0, 1), "x_inf": (0, 1), "dt": (1e-6, 1000), "x_tau": (1e-6, 1e6)},
))

REG.add(Contract(
    "jaxley.solver_gate:solve_inf_gate_exponential",
    inputs=lambda: {"x": S("x"), "dt": S("dt"), "s_inf": S("s_inf"), "tau_s": S("tau_s")},
    requires=lambda a: dom01(a["x"]) + dom01(a["s_inf"]) + [a["dt"].e > 0, a["tau_s"].e > 0],
    ensures={
        "closed_form": lambda a, r: r.e == _closed(a["x"].e, a["s_inf"].e, a["dt"].e, a["tau_s"].e),
        "in[0,1]": lambda a, r: in01(r.e),
        "toward_not_past": lambda a, r: between(a["x"].e, r.e, a["s_inf"].e),
    },
    spec=lambda a: a["s_inf"] + (a["x"] - a["s_inf"]) * sexp(-a["dt"] / a["tau_s"]),
    callees=("jaxley.solver_gate:save_exp",),
    boxes=lambda a: {"x": (0, 1), "s_inf": (0, 1), "dt": (1e-6, 1000), "tau_s": (1e-6, 1e6)},
))


def _ab_inputs():
    return {"x": S("x"), "dt": S("dt"), "alpha": S("alpha"), "beta": S("beta")}


def _ab_req(a):
    return dom01(a["x"]) + [a["dt"].e > 0, a["alpha"].e >= 0, a["beta"].e >= 0, a["alpha"].e + a["beta"].e > 0]


def _ab_closed(a):
    al, be = a["alpha"], a["beta"]
    xinf = al / (al + be)
    return xinf + (a["x"] - xinf) * sexp(-a["dt"] * (al + be))


REG.add(Contract(
    "jaxley.solver_gate:solve_gate_exponential",
    inputs=_ab_inputs, requires=_ab_req,
    ensures={
        "closed_form": lambda a, r: r.e == _ab_closed(a).e,
        "in[0,1]": lambda a, r: in01(r.e),
        "toward_not_past": lambda a, r: between(a["x"].e, r.e, a["alpha"].e / (a["alpha"].e + a["beta"].e)),
    },
    spec=_ab_closed,
    callees=("jaxley.solver_gate:exponential_euler",),
    boxes=lambda a: {"x": (0, 1), "dt": (1e-6, 1000), "alpha": (0, 1e4), "beta": (0, 1e4)},
))

REG.add(Contract(
    "jaxley.solver_gate:solve_gate_implicit",
    inputs=lambda: {"gating_state": S("x"), "dt": S("dt"), "alpha": S("alpha"), "beta": S("beta")},
    requires=lambda a: dom01(a["gating_state"]) + [a["dt"].e > 0, a["alpha"].e >= 0, a["beta"].e >= 0,
                                                   a["alpha"].e + a["beta"].e > 0],
    ensures={
        "implicit_euler": lambda a, r: r.e * (1 + a["dt"].e * (a["alpha"].e + a["beta"].e)) == a["gating_state"].e + a["dt"].e * a["alpha"].e,
        "in[0,1]": lambda a, r: in01(r.e),
        "toward_not_past": lambda a, r: between(a["gating_state"].e, r.e, a["alpha"].e / (a["alpha"].e + a["beta"].e)),
    },
    boxes=lambda a: {"x": (0, 1), "dt": (1e-6, 1000), "alpha": (0, 1e4), "beta": (0, 1e4)},
))

# ---- x/(exp(x)-1) helpers --------------------------------------------------------------------------------
# Contract of the helper: defined everywhere on its domain (removable singularity at 0 included), positive,
# and within 1e-9 (relative) of the continuous extension of x/(e^{x/y}-1):   |res*(e^u - 1) - x| <= 1e-9*|x|.


def _vtrap_like(res, x, u):
    ax = z3.If(x >= 0, x, -x)
    d = res * (E(u) - 1) - x
    return z3.And(d <= ax * z3.RealVal("1/1000000000"), -d <= ax * z3.RealVal("1/1000000000"))


REG.add(Contract(
    "jaxley.channels.hh:_vtrap",
    inputs=lambda: {"x": S("x"), "y": Sym(10)},
    requires=lambda a: [a["y"].e == 10, a["x"].e >= -300, a["x"].e <= 300],
    ensures={
        "positive": lambda a, r: r.e > 0,
        # clip at 20 is inactive iff x/y <= 20; the contract states the published function where it is
        "x/(exp(x/y)-1)": lambda a, r: z3.Implies(a["x"].e <= 200, _vtrap_like(r.e, a["x"].e, a["x"].e / 10)),
        "value_at_0": lambda a, r: z3.Implies(a["x"].e == 0, r.e == 10),
    },
    result_names=("res",),
    callees=("jaxley.solver_gate:save_exp",),
    boxes=lambda a: {"x": (-300, 300)}, special={"x": [0, 1e-5, -1e-5]}, optional=True,
))

REG.add(Contract(
    "jaxley.channels.pospischil:efun",
    inputs=lambda: {"x": S("x")},
    requires=lambda a: [a["x"].e >= -100, a["x"].e <= 100],
    ensures={
        "positive": lambda a, r: r.e > 0,
        "x/(exp(x)-1)": lambda a, r: z3.Implies(a["x"].e <= 20, _vtrap_like(r.e, a["x"].e, a["x"].e)),
        "value_at_0": lambda a, r: z3.Implies(a["x"].e == 0, r.e == 1),
    },
    result_names=("res",),
    callees=("jaxley.solver_gate:save_exp",),
    boxes=lambda a: {"x": (-100, 100)}, special={"x": [0, 1e-6, -1e-6]}, optional=True,
))

# ---- gates ------------------------------------------------------------------------------------------------
GATES = {}   # target -> dict(kind="ab"|"inf", args=[...])


def _gate(target, args, kind, dom, callees, special=None):
    def inputs():
        return {n: S(n) for n in args}

    def requires(a):
        r = []
        for n in args:
            r += dom[n](a[n])
        return r
    if kind == "ab":
        ens = {"alpha>0": lambda a, r: r[0].e > 0, "beta>0": lambda a, r: r[1].e > 0}
        names = ("alpha", "beta")
    else:
        ens = {"x_inf in (0,1)": lambda a, r: z3.And(r[0].e > 0, r[0].e < 1), "tau>0": lambda a, r: r[1].e > 0}
        names = ("x_inf", "tau")
    box = {"v": (V_LO, V_HI), "vt": (-80, -40), "vx": (-10, 10), "taumax": (100, 10000)}
    REG.add(Contract(target, inputs=inputs, requires=requires, ensures=ens, result_names=names, callees=callees,
                     boxes=lambda a: {n: box[n] for n in args}, special=special or {}))
    GATES[target] = dict(kind=kind, args=args)


_D = {"v": dom_v, "vt": dom_vt, "vx": dom_vx, "taumax": dom_taumax}
SE = "jaxley.solver_gate:save_exp"
VT = "jaxley.channels.hh:_vtrap"
EF = "jaxley.channels.pospischil:efun"
_gate("jaxley.channels.hh:HH.m_gate", ["v"], "ab", _D, (SE, VT), {"v": [-40]})
_gate("jaxley.channels.hh:HH.h_gate", ["v"], "ab", _D, (SE,))
_gate("jaxley.channels.hh:HH.n_gate", ["v"], "ab", _D, (SE, VT), {"v": [-55]})
_gate("jaxley.channels.pospischil:Na.m_gate", ["v", "vt"], "ab", _D, (SE, EF))
_gate("jaxley.channels.pospischil:Na.h_gate", ["v", "vt"], "ab", _D, (SE,))
_gate("jaxley.channels.pospischil:K.n_gate", ["v", "vt"], "ab", _D, (SE, EF))
_gate("jaxley.channels.pospischil:Km.p_gate", ["v", "taumax"], "inf", _D, (SE,))
_gate("jaxley.channels.pospischil:CaL.q_gate", ["v"], "ab", _D, (SE, EF), {"v": [-27]})
_gate("jaxley.channels.pospischil:CaL.r_gate", ["v"], "ab", _D, (SE,))
_gate("jaxley.channels.pospischil:CaT.u_gate", ["v", "vx"], "inf", _D, (SE,))

# ---- update_states ---------------------------------------------------------------------------------------
# (class target, prefix, states, params with domains, gates [(state, gate target, gate args from (v, params))])
CHANNELS = {
    "HH": dict(mod="jaxley.channels.hh", states=["m", "h", "n"], params={"gNa": None, "gK": None, "gLeak": None, "eNa": None, "eK": None, "eLeak": None},
               globals_={}, gates=[("m", "m_gate", []), ("h", "h_gate", []), ("n", "n_gate", [])], solver="solve_gate_exponential"),
    "Na": dict(mod="jaxley.channels.pospischil", states=["m", "h"], params={"gNa": None}, globals_={"eNa": None, "vt": dom_vt},
               gates=[("m", "m_gate", ["vt"]), ("h", "h_gate", ["vt"])], solver="solve_gate_exponential"),
    "K": dict(mod="jaxley.channels.pospischil", states=["n"], params={"gK": None}, globals_={"eK": None, "vt": dom_vt},
              gates=[("n", "n_gate", ["vt"])], solver="solve_gate_exponential"),
    "Km": dict(mod="jaxley.channels.pospischil", states=["p"], params={"gKm": None, "taumax": dom_taumax}, globals_={"eK": None},
               gates=[("p", "p_gate", ["Km_taumax"])], solver="solve_inf_gate_exponential"),
    "CaL": dict(mod="jaxley.channels.pospischil", states=["q", "r"], params={"gCaL": None}, globals_={"eCa": None},
                gates=[("q", "q_gate", []), ("r", "r_gate", [])], solver="solve_gate_exponential"),
    "CaT": dict(mod="jaxley.channels.pospischil", states=["u"], params={"gCaT": None, "vx": dom_vx}, globals_={"eCa": None},
                gates=[("u", "u_gate", ["CaT_vx"])], solver="solve_inf_gate_exponential"),
    "Leak": dict(mod="jaxley.channels.pospischil", states=[], params={"gLeak": None, "eLeak": None}, globals_={}, gates=[], solver=None),
}


def channel_inputs(name, prefix=None):
    spec = CHANNELS[name]
    prefix = prefix or name
    # symbol names are prefix-free so that terms of renamed mechanisms are comparable
    states = {f"{prefix}_{s}": S(s) for s in spec["states"]}
    params = {f"{prefix}_{p}": S(p) for p in spec["params"]}
    params.update({g: S(g) for g in spec["globals_"]})
    return states, params


def channel_requires(name, states, params, prefix=None):
    spec = CHANNELS[name]
    prefix = prefix or name
    r = []
    for s in spec["states"]:
        r += dom01(states[f"{prefix}_{s}"])
    for p, d in spec["params"].items():
        if d:
            r += d(params[f"{prefix}_{p}"])
    for p, d in spec["globals_"].items():
        if d:
            r += d(params[p])
    return r


def _factory(name, prefix):
    import importlib
    cls = getattr(importlib.import_module(CHANNELS[name]["mod"]), name)
    return (lambda: cls()) if prefix == name else (lambda: cls().change_name(prefix))


def _update_contract(name, prefix=None):
    spec = CHANNELS[name]
    prefix = prefix or name
    target = f"{spec['mod']}:{name}.update_states" + ("" if prefix == name else f"#renamed:{prefix}")

    def inputs():
        st, pa = channel_inputs(name, prefix)
        return {"states": st, "dt": S("dt"), "v": S("v"), "params": pa}

    def requires(a):
        return channel_requires(name, a["states"], a["params"], prefix) + dom_dt(a["dt"]) + dom_v(a["v"])
    ens = {}
    for s in spec["states"]:
        ens[f"{prefix}_{s} in [0,1]"] = (lambda key: lambda a, r: in01(r[key].e) if key in r else z3.BoolVal(False))(f"{prefix}_{s}")
    ens["returns exactly its own states"] = lambda a, r: z3.BoolVal(sorted(r.keys()) == sorted(a["states"].keys()))
    for s, g, extra in spec["gates"]:
        ens[f"{prefix}_{s} follows the closed-form update of its own gate {g}"] = (
            lambda s, g: lambda a, r: (r[f"{prefix}_{s}"].e == gate_closed(name, g, a["states"][f"{prefix}_{s}"].e, a["dt"].e, a["v"], a["params"], prefix)) if f"{prefix}_{s}" in r else z3.BoolVal(False))(s, g)
    callees = tuple(f"{spec['mod']}:{name}.{g}" for _, g, _ in spec["gates"])
    if spec["solver"]:
        callees += (f"jaxley.solver_gate:{spec['solver']}",)
    REG.add(Contract(target, inputs=inputs, requires=requires, ensures=ens, callees=callees,
                     boxes=lambda a: {}, self_factory=_factory(name, prefix)))
    return target


def gate_terms(name, g, v, params, prefix=None):
    """the (alpha, beta) / (x_inf, tau) terms the gate contract of channel `name` yields for these arguments"""
    from .contracts import uf_result
    spec = CHANNELS[name]
    c = REG[f"{spec['mod']}:{name}.{g}"]
    extra = [e for s_, g_, e in spec["gates"] if g_ == g][0]
    prefix = prefix or name
    a = {"v": v}
    for pname in GATES[c.target]["args"][1:]:
        key = pname if pname in params else f"{prefix}_{pname}"
        a[pname] = params[key]
    return GATES[c.target]["kind"], uf_result(c, a)


def gate_closed(name, g, x, dt, v, params, prefix=None):
    kind, (p, q) = gate_terms(name, g, v, params, prefix)
    if kind == "ab":
        xinf = p.e / (p.e + q.e)
        return xinf + (x - xinf) * E(-dt * (p.e + q.e))
    return p.e + (x - p.e) * E(-dt / q.e)


def gate_steady(name, g, v, params, prefix=None):
    kind, (p, q) = gate_terms(name, g, v, params, prefix)
    return p.e / (p.e + q.e) if kind == "ab" else p.e


UPDATE_TARGETS = [_update_contract(n) for n in CHANNELS]
UPDATE_TARGETS_RENAMED = [_update_contract(n, "Xq7") for n in CHANNELS]


def _init_contract(name, prefix=None):
    spec = CHANNELS[name]
    prefix = prefix or name
    target = f"{spec['mod']}:{name}.init_state" + ("" if prefix == name else f"#renamed:{prefix}")

    def inputs():
        st, pa = channel_inputs(name, prefix)
        return {"states": st, "v": S("v"), "params": pa, "delta_t": S("dt")}

    def requires(a):
        return channel_requires(name, a["states"], a["params"], prefix) + dom_dt(a["delta_t"]) + [a["v"].e >= -120, a["v"].e <= 60]
    ens = {"returns exactly its own states": lambda a, r: z3.BoolVal(sorted(r.keys()) == sorted(a["states"].keys()))}
    for s, g, extra in spec["gates"]:
        ens[f"{prefix}_{s} == steady state of its own gate {g}"] = (
            lambda s, g: lambda a, r: (r[f"{prefix}_{s}"].e == gate_steady(name, g, a["v"], a["params"], prefix)) if f"{prefix}_{s}" in r else z3.BoolVal(False))(s, g)
        ens[f"{prefix}_{s} in [0,1]"] = (lambda s: lambda a, r: in01(r[f"{prefix}_{s}"].e) if f"{prefix}_{s}" in r else z3.BoolVal(False))(s)
    callees = tuple(f"{spec['mod']}:{name}.{g}" for _, g, _ in spec["gates"])
    REG.add(Contract(target, inputs=inputs, requires=requires, ensures=ens, callees=callees, boxes=lambda a: {}, self_factory=_factory(name, prefix)))
    return target


INIT_TARGETS = [_init_contract(n) for n in CHANNELS]
INIT_TARGETS_RENAMED = [_init_contract(n, "Xq7") for n in CHANNELS]


# ---- synapses ---------------------------------------------------------------------------------------------
def _syn_update(target, prefix, state, k_minus_param):
    def inputs():
        params = {f"{prefix}_gS": S("gS"), f"{prefix}_e_syn": S("e_syn"), f"{prefix}_k_minus": S("k_minus")} if k_minus_param else {f"{prefix}_gC": S("gC")}
        return {"states": {f"{prefix}_{state}": S("s")}, "delta_t": S("dt"), "pre_voltage": S("v_pre"),
                "post_voltage": S("v_post"), "params": params}

    def requires(a):
        r = dom01(a["states"][f"{prefix}_{state}"]) + dom_dt(a["delta_t"]) + dom_v(a["pre_voltage"]) + dom_v(a["post_voltage"])
        if k_minus_param:
            r += dom_kminus(a["params"][f"{prefix}_k_minus"])
        return r

    def closed(a, r):
        s = a["states"][f"{prefix}_{state}"].e
        vpre = a["pre_voltage"].e
        km = a["params"][f"{prefix}_k_minus"].e if k_minus_param else z3.RealVal("1/40")
        sinf = 1 / (1 + E((-35 - vpre) / 10))
        tau = (1 - sinf) / km
        return r[f"{prefix}_{state}"].e == sinf + (s - sinf) * E(-a["delta_t"].e / tau)
    key = f"{prefix}_{state}"
    REG.add(Contract(
        target, inputs=inputs, requires=requires,
        ensures={
            "in[0,1]": lambda a, r: in01(r[key].e),
            "closed_form (Abbott-Marder s_inf, tau=(1-s_inf)/k_minus)": closed,
            "toward_not_past": lambda a, r: between(a["states"][key].e, r[key].e, 1 / (1 + E((-35 - a["pre_voltage"].e) / 10))),
            "returns exactly its own states": lambda a, r: z3.BoolVal(sorted(r.keys()) == [key]),
        },
        callees=(SE,),
        boxes=lambda a: {"s": (0, 1), "dt": (1e-6, 1000), "v_pre": (V_LO, V_HI), "v_post": (V_LO, V_HI), "k_minus": (1e-3, 10)},
    ))
    return target


SYN_TARGETS = [
    _syn_update("jaxley.synapses.ionotropic:IonotropicSynapse.update_states", "IonotropicSynapse", "s", True),
    _syn_update("jaxley.synapses.test:TestSynapse.update_states", "TestSynapse", "c", False),
]

SOLVER_TARGETS = ["jaxley.solver_gate:save_exp", "jaxley.solver_gate:exponential_euler",
                  "jaxley.solver_gate:solve_inf_gate_exponential", "jaxley.solver_gate:solve_gate_exponential",
                  "jaxley.solver_gate:solve_gate_implicit", VT, EF]
