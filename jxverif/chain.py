"""C01 modular chain for the custom (Hines-style) voltage solver.

For one static structure the REAL functions of jaxley/solver_voltage.py run symbolically.  Contracts sit at every
function boundary of the elimination: the six step functions are wrapped; before each call the solver state is
replaced by FRESH symbols about which only the contract facts are known:

   wf(state)    : representation invariant (sign / row-sum conditions of an M-matrix view, structural zeros)
   sat(state,X) : X satisfies every row of the abstract view of the state

Each step must (a) divide only by provably non-zero pivots, (b) preserve `sat` (X still satisfies every row of the
post-state view) and (c) re-establish `wf`.  The first call additionally proves that the assembled system IS the
specification system (specs/cable.py) and the end proves that the view has become the identity, so the returned
voltages are X: the unique solution of the specification system.

The abstract view places the coupling of a parent branch to its branch point on the row where the specification has
it - the last REAL compartment of the parent branch - not where the code happens to put it.
"""
from __future__ import annotations

import inspect
import time

import numpy as np
import z3

from . import discharge as D
from .specs import cable
from .sym import Ctx, Runtime, Sym, SymArray

STATE = ["lowers", "diags", "uppers", "solves", "branchpoint_conds_children", "branchpoint_conds_parents",
         "branchpoint_weights_children", "branchpoint_weights_parents", "branchpoint_diags", "branchpoint_solves"]
# which state components each contract-bearing function returns, in order (checked against the code's arity at run time)
RETURNS = {
    "_triang_level": ["diags", "lowers", "solves", "uppers"],
    "_eliminate_children_lower": ["branchpoint_diags", "branchpoint_solves", "branchpoint_weights_children"],
    "_eliminate_parents_upper": ["diags", "solves", "branchpoint_conds_parents"],
    "_backsub_level": ["solves", "lowers", "diags"],
    "_eliminate_parents_lower": ["branchpoint_weights_parents", "branchpoint_solves"],
    "_eliminate_children_upper": ["branchpoint_conds_children", "solves"],
}
ARGNAME = {"bp_conds_children": "branchpoint_conds_children", "bp_conds_parents": "branchpoint_conds_parents",
           "bp_weights_children": "branchpoint_weights_children", "bp_weights_parents": "branchpoint_weights_parents"}


class Layout:
    """static layout of the padded solver state, read from the natively built module"""

    def __init__(self, module, topo):
        idx = module._solve_indexer
        self.idx = idx
        self.nb = int(module.total_nbranches)
        self.ncomp = np.asarray(module.ncomp_per_branch)
        self.cs = np.asarray(module.cumsum_ncomp)
        self.pcs = np.asarray(idx.cumsum_ncomp)
        self.P = int(self.pcs[-1])
        self.mask = np.asarray(idx.remapped_node_indices)
        self.par_inds = np.asarray(module._par_inds)
        self.child_inds = np.asarray(module._child_inds)
        self.child_bp = np.asarray(module._child_belongs_to_branchpoint)
        self.B = len(self.par_inds)
        self.first = {b: int(self.pcs[b]) for b in range(self.nb)}
        self.blockend = {b: int(self.pcs[b + 1]) - 1 for b in range(self.nb)}
        # specification side: the last REAL compartment of branch b, through the compartment numbering of the spec
        self.last_real = {b: int(self.mask[topo.last[b]]) for b in range(self.nb)}
        self.bp_of_child = {int(c): int(j) for c, j in zip(self.child_inds, self.child_bp)}
        self.bp_of_parent = {int(p): j for j, p in enumerate(self.par_inds)}
        self.block_of = {}
        for b in range(self.nb):
            for p in range(self.first[b], self.blockend[b] + 1):
                self.block_of[p] = b


def layout_obligations(L: Layout, topo):
    """structural facts the chain relies on, checked per structure (concrete, decided by evaluation)"""
    out = []
    N = topo.N
    real = [int(L.mask[i]) for i in range(N)]
    out.append(("layout:mask injective", len(set(real)) == N))
    out.append(("layout:mask(i) inside the block of its branch", all(L.first[topo.branch_of_comp[i]] <= real[i] <= L.blockend[topo.branch_of_comp[i]] for i in range(N))))
    out.append(("layout:mask(first real compartment of b) == first(b)", all(real[topo.first[b]] == L.first[b] for b in range(L.nb))))
    out.append(("layout:consecutive compartments of a branch are adjacent slots", all(real[i + 1] == real[i] + 1 for i in range(N - 1) if topo.branch_of_comp[i] == topo.branch_of_comp[i + 1])))
    out.append(("layout:blocks partition the padded index space", sorted(L.block_of) == list(range(L.P))))
    out.append(("layout:par_inds are exactly the branches with children", sorted(map(int, L.par_inds)) == sorted(topo.children)))
    ok = True
    for c, j in L.bp_of_child.items():
        par = int(L.par_inds[j])
        ok = ok and c in topo.children.get(par, [])
    ok = ok and sorted(L.bp_of_child) == sorted(c for kids in topo.children.values() for c in kids)
    out.append(("layout:every child branch is attached to the branch point of its own parent", ok))
    return out


def view(st, L):
    """abstract view: rows [(coeffs {col: Sym}, rhs Sym)]; cols 0..P-1 padded compartments, P..P+B-1 branch points"""
    rows = []
    for p in range(L.P):
        b = L.block_of[p]
        co = {p: st["diags"][p]}
        if p > L.first[b]:
            co[p - 1] = st["lowers"][p]
        if p < L.blockend[b]:
            co[p + 1] = st["uppers"][p]
        if p == L.first[b] and b in L.bp_of_child:
            co[L.P + L.bp_of_child[b]] = st["branchpoint_conds_children"][b]
        if p == L.last_real[b] and b in L.bp_of_parent:
            c = L.P + L.bp_of_parent[b]
            co[c] = co.get(c, Sym(0)) + st["branchpoint_conds_parents"][b]
        rows.append((co, st["solves"][p]))
    for j in range(L.B):
        co = {L.P + j: st["branchpoint_diags"][j]}
        for b, jj in L.bp_of_child.items():
            if jj == j:
                co[L.first[b]] = st["branchpoint_weights_children"][b]
        pb = int(L.par_inds[j])
        c = L.last_real[pb]
        co[c] = co.get(c, Sym(0)) + st["branchpoint_weights_parents"][pb]
        rows.append((co, st["branchpoint_solves"][j]))
    return rows


def is_const(s, val=None):
    return s.c is not None and (val is None or s.c == val)


def row_eq(row, X):
    co, rhs = row
    lhs = z3.RealVal(0)
    for c, s in co.items():
        if not is_const(s, 0):
            lhs = lhs + s.e * X[c]
    return lhs == rhs.e


def wf_facts(rows, L):
    """comp rows: off-diagonals <= 0, row sum > 0 (=> diag > 0).  branch-point rows: off-diagonals >= 0, diag < 0,
    row sum <= 0."""
    f = []
    for r, (co, rhs) in enumerate(rows):
        rs = z3.RealVal(0)
        for c, s in co.items():
            rs = rs + s.e
        for c, s in co.items():
            if c != r and not is_const(s, 0):
                f.append(s.e <= 0 if r < L.P else s.e >= 0)
        if r < L.P:
            f.append(rs > 0)
        else:
            f += [co[r].e < 0, rs <= 0]
    return f


class Chain:
    def __init__(self, L, X, tag, timeout_ms=30000):
        self.L, self.X, self.tag = L, X, tag
        self.state = None
        self.facts = []
        self.results = []
        self.fresh_n = 0
        self.timeout_ms = timeout_ms
        self.calls = {}

    def prove(self, name, hyps, goal):
        r = D.prove(f"{name}[{self.tag}]", hyps, goal, timeout_ms=self.timeout_ms, use_cvc5=False)
        self.results.append(r.to_json())
        return r.status == "proved"

    def structural(self, name, ok, detail=""):
        self.results.append({"name": f"{name}[{self.tag}]", "status": "proved" if ok else "refuted", "backend": "structural",
                             "time_s": 0.0, "model": {}, "detail": detail})

    def freshen(self, st):
        new = {}
        for k, arr_ in st.items():
            out = []
            for s in arr_:
                if is_const(s):
                    out.append(Sym(s.c))
                else:
                    self.fresh_n += 1
                    out.append(Sym(z3.Real(f"{k[:2]}{k.split('_')[-1][:2]}!{self.fresh_n}")))
            new[k] = SymArray(np.asarray(out, dtype=object))
        return new

    def step(self, fname, args_by_name, call):
        L, X = self.L, self.X
        self.calls[fname] = self.calls.get(fname, 0) + 1
        nm = f"solver_voltage.{fname}#{self.calls[fname]}"
        pre_state = dict(self.state)
        for k, v in args_by_name.items():
            if k in pre_state:
                pre_state[k] = v
        pre_rows = view(pre_state, L)
        pre_eqs = [row_eq(r, X) for r in pre_rows]
        hyps = list(self.facts)
        n0 = len(Ctx.strict)
        out = call()
        new_ids = Ctx.strict[n0:]
        # (a) every denominator is non-zero, in program order (earlier ones are available to later ones)
        for k in new_ids:
            kind, cond, desc = Ctx.defs[k]
            self.prove(f"{nm}:pivot#{k - (new_ids[0] if new_ids else 0)}!=0", hyps, cond)
            hyps.append(cond)
        outs = out if isinstance(out, tuple) else (out,)
        if len(outs) != len(RETURNS[fname]):
            raise RuntimeError(f"{fname} returns {len(outs)} values, contract expects {len(RETURNS[fname])}")
        post_state = dict(pre_state)
        for k, v in zip(RETURNS[fname], outs):
            if np.shape(v) != np.shape(pre_state[k]):
                raise RuntimeError(f"{fname}: shape of {k} changed")
            post_state[k] = v
        post_rows = view(post_state, L)
        # (b) solution preserved
        for r, row in enumerate(post_rows):
            g = row_eq(row, X)
            if g.eq(pre_eqs[r]):
                continue
            self.prove(f"{nm}:row_preserved[{r}]", hyps, g)
        # (c) wf re-established
        known = {h.get_id() for h in hyps}
        for i, g in enumerate(wf_facts(post_rows, L)):
            if g.get_id() in known:
                continue
            self.prove(f"{nm}:wf[{i}]", hyps, g)
        self.state = self.freshen(post_state)
        rows = view(self.state, L)
        self.facts = [row_eq(r, X) for r in rows] + wf_facts(rows, L)
        res = tuple(self.state[k] for k in RETURNS[fname])
        return res if isinstance(out, tuple) else res[0]


def spec_rows_padded(L: Layout, topo, spec):
    """specification rows re-indexed to the padded space of the solver (padded slots: x = 0 identity rows)"""
    P = L.P
    col = {}
    for i in range(topo.N):
        col[i] = int(L.mask[i])
    for par, node in topo.bp_of_parent.items():
        col[node] = P + L.bp_of_parent[par]
    rows = [({p: Sym(1)}, Sym(0)) for p in range(P)] + [None] * L.B
    for n, (co, rhs) in enumerate(spec):
        rows[col[n]] = ({col[c]: s for c, s in co.items()}, rhs)
    return rows


def same_row(co, rhs, sco, srhs, hyps, prove, name, up_to_scale=False, diag=None):
    cols = sorted(set(co) | set(sco))
    zero = Sym(0)
    if not up_to_scale:
        goal = z3.And(*[co.get(c, zero).e == sco.get(c, zero).e for c in cols], rhs.e == srhs.e)
        return prove(name, hyps, goal)
    a0, s0 = co.get(diag, zero).e, sco.get(diag, zero).e
    goal = z3.And(a0 != 0, s0 != 0, *[co.get(c, zero).e * s0 == sco.get(c, zero).e * a0 for c in cols], rhs.e * s0 == srhs.e * a0)
    return prove(name, hyps, goal)


def run_jaxley_chain(module, topo, P, dt, solver, tag, timeout_ms=30000):
    """-> (results, info).  P: symbolic physical parameters and membrane terms (see specs/cable.system)."""
    import jaxley.solver_voltage as SV
    from jaxley.utils.cell_utils import compute_axial_conductances
    L = Layout(module, topo)
    N = topo.N
    X = [z3.Real(f"x{p}") for p in range(L.P)] + [z3.Real(f"xb{j}") for j in range(L.B)]
    ch = Chain(L, X, tag, timeout_ms)
    lay = layout_obligations(L, topo)
    for nm, ok in lay:
        ch.structural(nm, ok)
    if not all(ok for _, ok in lay):
        # the index layout the module hands to the solver does not describe the tree (e.g. two branch points for one parent):
        # the refuted layout obligations are the verdict; the chain's view of the solver state is undefined on such a layout
        return ch.results, {"refused": "", "reached": {}, "calls": {}}
    pos = [dt.e > 0]
    for k in ("radius", "length", "axial_resistivity", "capacitance"):
        pos += [s.e > 0 for s in P[k]]
    pos += [s.e >= 0 for s in P["a"]]
    pos += D.PI_FACTS
    rt = Runtime()
    ce = module._comp_edges
    sinks, sources, types = (np.asarray(ce[c].to_list()) for c in ("sink", "source", "type"))
    # real compute_axial_conductances on the symbolic physical parameters
    n0 = len(Ctx.strict)
    g = rt.reglob(compute_axial_conductances)(ce, {k: P[k] for k in ("radius", "length", "axial_resistivity", "capacitance")})
    for k in Ctx.strict[n0:]:
        ch.prove(f"cell_utils.compute_axial_conductances:defined#{k - n0}", pos, Ctx.defs[k][1])
        pos.append(Ctx.defs[k][1])
    spec = spec_rows_padded(L, topo, cable.system(topo, P, dt))
    first_call = [True]
    INIT = {}
    over = {}

    def make(fname):
        realfn = getattr(SV, fname)
        real = rt.reglob(realfn)
        params = list(inspect.signature(realfn).parameters)

        def wrapper(*args):
            byname = {ARGNAME.get(p, p): a_ for p, a_ in zip(params, args)}
            if first_call[0]:
                first_call[0] = False
                st0 = {k: byname[k] for k in STATE if k in byname}
                for k in STATE:
                    if k not in st0:
                        st0[k] = INIT[k]
                rows0 = view(st0, L)
                for r, ((co, rhs), (sco, srhs)) in enumerate(zip(rows0, spec)):
                    same_row(co, rhs, sco, srhs, pos, ch.prove, f"solver_voltage.step_voltage_implicit_with_jaxley_spsolve:assembled row[{r}]==spec",
                             up_to_scale=r >= L.P, diag=r)
                for i, gf in enumerate(wf_facts(rows0, L)):
                    ch.prove(f"solver_voltage.step_voltage_implicit_with_jaxley_spsolve:assembled wf[{i}]", pos, gf)
                ch.state = ch.freshen(st0)
                rows = view(ch.state, L)
                ch.facts = [row_eq(r, X) for r in rows] + wf_facts(rows, L)
            args = tuple(ch.state[ARGNAME.get(p, p)] if ARGNAME.get(p, p) in ch.state else a_ for p, a_ in zip(params, args))
            byname = {ARGNAME.get(p, p): a_ for p, a_ in zip(params, args)}
            return ch.step(fname, byname, lambda: real(*args))
        return wrapper
    for fname in RETURNS:
        if hasattr(SV, fname):          # a boundary function that was renamed / inlined is simply no boundary any more
            over[fname] = make(fname)
    real_tb = rt.reglob(SV._triang_branched).__reglob__
    real_bb = rt.reglob(SV._backsub_branched).__reglob__

    def tb(lowers, diags, uppers, solves, bcc, bcp, bwc, bwp, bd, bs, *rest):
        INIT.update(dict(zip(STATE, [lowers, diags, uppers, solves, bcc, bcp, bwc, bwp, bd, bs])))
        return real_tb(lowers, diags, uppers, solves, bcc, bcp, bwc, bwp, bd, bs, *rest)
    real_tb.__globals__.update(over)
    top = rt.reglob(SV.step_voltage_implicit_with_jaxley_spsolve).__reglob__
    top.__globals__.update({"_triang_branched": tb, "_backsub_branched": real_bb})
    info = {"refused": ""}
    for f in ("step_voltage_implicit_with_jaxley_spsolve", "_triang_branched", "_backsub_branched"):
        rt.reached[f"jaxley.solver_voltage.{f}"] = rt.reached.get(f"jaxley.solver_voltage.{f}", 0) + 1
    try:
        out = top(P["v"], P["a"], P["c"], g, np.asarray(module._internal_node_inds), sinks, sources, types, L.ncomp,
                  L.par_inds, L.child_inds, L.nb, solver, dt, L.idx, {})
    except AssertionError as e:
        info["refused"] = f"AssertionError: {str(e)[:120]}"
        return ch.results, info
    if ch.state is None:
        raise RuntimeError("no contract-bearing solver function was called")
    rows = view(ch.state, L)
    ident = all(all(is_const(s, 1 if cc == r else 0) for cc, s in co.items()) for r, (co, rhs) in enumerate(rows[:L.P]))
    ch.structural("solver_voltage._backsub_branched:final view is the identity on compartments", ident)
    ret_ok = len(out) == N and all(out[i].e.eq(ch.state["solves"][int(L.mask[i])].e) for i in range(N))
    ch.structural("solver_voltage.step_voltage_implicit_with_jaxley_spsolve:returns solves[mask(i)] for every compartment i", ret_ok)
    info["reached"] = dict(rt.reached)
    info["calls"] = dict(ch.calls)
    return ch.results, info


def assemble_sparse(module, topo, P, dt):
    """Run the real jax.sparse assembly code symbolically and return the matrix it denotes.
    -> dict(M=[{col: Sym}], b=[Sym], n_nodes, col={spec node: code node}, ok_nodes, out, Xs, internal, indptr, indices, data, reached)"""
    import jaxley.solver_voltage as SV
    from jaxley.utils.cell_utils import compute_axial_conductances
    rt = Runtime()
    ce = module._comp_edges
    g = rt.reglob(compute_axial_conductances)(ce, {k: P[k] for k in ("radius", "length", "axial_resistivity", "capacitance")})
    n_nodes = int(module._n_nodes)
    captured = {}
    Xs = SymArray(np.asarray([Sym(z3.Real(f"xs{i}")) for i in range(n_nodes)], dtype=object))

    def spsolve_stub(data, indices, indptr, b, **kw):
        captured.update(data=data, indices=np.asarray(indices), indptr=np.asarray(indptr), b=b)
        return Xs
    rt.stub(SV.jax_spsolve, spsolve_stub)
    top = rt.reglob(SV.step_voltage_implicit_with_jax_spsolve)
    internal = np.asarray(module._internal_node_inds)
    out = top(P["v"], P["a"], P["c"], g, np.asarray(module._data_inds), module._indices_jax_spsolve, module._indptr_jax_spsolve,
              np.asarray(ce["sink"].to_list()), dt, n_nodes, internal)
    if not captured:
        raise RuntimeError("jax_spsolve was not called")
    data, indices, indptr, b = captured["data"], captured["indices"], captured["indptr"], captured["b"]
    M = [dict() for _ in range(n_nodes)]
    for row in range(min(n_nodes, len(indptr) - 1)):
        for k in range(indptr[row], indptr[row + 1]):
            c_ = int(indices[k])
            M[row][c_] = M[row].get(c_, Sym(0)) + data[k]
    N = topo.N
    col = {i: i for i in range(N)}
    srcs, snks, tys = (np.asarray(ce[c].to_list()) for c in ("source", "sink", "type"))
    ok = n_nodes == N + topo.B and sorted(map(int, internal)) == list(range(N))
    for par, node in topo.bp_of_parent.items():
        cand = [int(s_) for s_, k, t in zip(srcs, snks, tys) if t == 1 and int(k) == topo.last[par]]
        if len(cand) != 1:
            ok = False
            continue
        col[node] = cand[0]
    ok = ok and len(set(col.values())) == N + topo.B
    return dict(M=M, b=b, n_nodes=n_nodes, col=col, ok_nodes=ok, out=out, Xs=Xs, internal=internal, indptr=indptr, indices=indices,
                data=data, reached=dict(rt.reached))


def run_sparse(module, topo, P, dt, tag, timeout_ms=30000):
    """jax.sparse backend: the real assembly code runs; `jax_spsolve` is a contract stub that receives the sparse arrays.
    The matrix they denote (by the definition of CSR, which is what jax's spsolve documents) must be the specification
    system."""
    import jaxley.solver_voltage as SV
    from jaxley.utils.cell_utils import compute_axial_conductances
    results = []

    def prove(name, hyps, goal):
        r = D.prove(f"{name}[{tag}]", hyps, goal, timeout_ms=timeout_ms, use_cvc5=False)
        results.append(r.to_json())
        return r.status == "proved"

    def structural(name, ok, detail=""):
        results.append({"name": f"{name}[{tag}]", "status": "proved" if ok else "refuted", "backend": "structural", "time_s": 0.0, "model": {}, "detail": detail})
    pos = [dt.e > 0]
    for k in ("radius", "length", "axial_resistivity", "capacitance"):
        pos += [s.e > 0 for s in P[k]]
    pos += [s.e >= 0 for s in P["a"]] + D.PI_FACTS
    rt = Runtime()
    ce = module._comp_edges
    g = rt.reglob(compute_axial_conductances)(ce, {k: P[k] for k in ("radius", "length", "axial_resistivity", "capacitance")})
    n_nodes = int(module._n_nodes)
    captured = {}
    Xs = SymArray(np.asarray([Sym(z3.Real(f"xs{i}")) for i in range(n_nodes)], dtype=object))

    def spsolve_stub(data, indices, indptr, b, **kw):
        captured.update(data=data, indices=np.asarray(indices), indptr=np.asarray(indptr), b=b)
        return Xs
    rt.stub(SV.jax_spsolve, spsolve_stub)
    top = rt.reglob(SV.step_voltage_implicit_with_jax_spsolve)
    internal = np.asarray(module._internal_node_inds)
    out = top(P["v"], P["a"], P["c"], g, np.asarray(module._data_inds), module._indices_jax_spsolve, module._indptr_jax_spsolve,
              np.asarray(ce["sink"].to_list()), dt, n_nodes, internal)
    if not captured:
        raise RuntimeError("jax_spsolve was not called")
    data, indices, indptr, b = captured["data"], captured["indices"], captured["indptr"], captured["b"]
    structural("solver_utils.convert_to_csc:indptr is a monotone partition of the data", len(indptr) == n_nodes + 1 and indptr[0] == 0 and indptr[-1] == len(data) and bool(np.all(np.diff(indptr) >= 0)))
    structural("solver_utils.convert_to_csc:row indices in range", bool(np.all((indices >= 0) & (indices < n_nodes))))
    # jax.experimental.sparse.linalg.spsolve takes the matrix in CSR form: `indptr` are ROW pointers and `indices`
    # COLUMN indices (jaxley's helper is named convert_to_csc, but what it builds is consumed as CSR)
    M = [dict() for _ in range(n_nodes)]
    for row in range(n_nodes):
        for k in range(indptr[row], indptr[row + 1]):
            c_ = int(indices[k])
            M[row][c_] = M[row].get(c_, Sym(0)) + data[k]
    # node correspondence: compartments are numbered identically; branch point of parent branch p <-> the node that the
    # real comp_edges attach to the last compartment of p (type 1 edge: sink = compartment, source = branch point)
    N = topo.N
    col = {i: i for i in range(N)}
    srcs, snks, tys = (np.asarray(ce[c].to_list()) for c in ("source", "sink", "type"))
    ok = n_nodes == N + topo.B and sorted(map(int, internal)) == list(range(N))
    for par, node in topo.bp_of_parent.items():
        cand = [int(s) for s, k, t in zip(srcs, snks, tys) if t == 1 and int(k) == topo.last[par]]
        if len(cand) != 1:
            ok = False
            continue
        col[node] = cand[0]
    ok = ok and len(set(col.values())) == N + topo.B
    structural("Module._init_morph_jax_spsolve:nodes = compartments + one branch point per branching parent", ok)
    if ok:
        spec = cable.system(topo, P, dt)
        for n, (sco, srhs) in enumerate(spec):
            r_ = col[n]
            sco2 = {col[c]: s for c, s in sco.items()}
            same_row(M[r_], b[r_], sco2, srhs, pos, prove, f"solver_voltage.step_voltage_implicit_with_jax_spsolve:CSR row[{r_}]==spec",
                     up_to_scale=n >= N, diag=r_)
    ret_ok = len(out) == N and all(out[i].e.eq(Xs[int(internal[i])].e) for i in range(N))
    structural("solver_voltage.step_voltage_implicit_with_jax_spsolve:returns the solution at the compartment nodes", ret_ok)
    return results, {"reached": dict(rt.reached)}


def run_step_schemes(module, topo, tag, timeout_ms=30000):
    """Module.step: which scheme is applied for each (solver, voltage_solver).  The implicit solvers are contract stubs
    (their bodies are verified by run_jaxley_chain / run_sparse): result H = solution of the backward-Euler system for
    the delta_t they receive."""
    import jaxley.modules.base as MB
    import jaxley.solver_voltage as SV
    from .sym import Proxy
    results = []

    def prove(name, hyps, goal):
        r = D.prove(f"{name}[{tag}]", hyps, goal, timeout_ms=timeout_ms, use_cvc5=False)
        results.append(r.to_json())
        return r.status == "proved"

    def structural(name, ok, detail=""):
        results.append({"name": f"{name}[{tag}]", "status": "proved" if ok else "refuted", "backend": "structural", "time_s": 0.0, "model": {}, "detail": detail})
    N = topo.N
    mk = lambda nm, n=N: SymArray(np.asarray([Sym(z3.Real(f"{nm}{i}")) for i in range(n)], dtype=object))
    dt = Sym(z3.Real("dt"))
    reached = {}
    refusals = []
    for solver in ("bwd_euler", "crank_nicolson", "fwd_euler"):
        for vs in ("jaxley.thomas", "jaxley.stone", "jax.sparse"):
            Ctx.reset()
            rt = Runtime()
            calls = []
            H = mk("h")

            def stub_jaxley(**kw):
                calls.append(("jaxley", kw))
                return H

            def stub_sparse(**kw):
                calls.append(("sparse", kw))
                return H
            rt.stub(SV.step_voltage_implicit_with_jaxley_spsolve, stub_jaxley)
            rt.stub(SV.step_voltage_implicit_with_jax_spsolve, stub_sparse)
            v = mk("v")
            params = {"radius": mk("r"), "length": mk("l"), "axial_resistivity": mk("ra"), "capacitance": mk("cm")}
            ne = len(module._comp_edges)
            params["axial_conductances"] = mk("g", ne)
            px = Proxy(module, rt)
            u = {"v": v}
            I = Sym(z3.Real("I0"))
            ext = {"i": SymArray(np.asarray([I], dtype=object))}
            ext_inds = {"i": np.asarray([N - 1])}
            nm = f"Module.step[{solver},{vs}]"
            try:
                new = px.step(dict(u), dt, ext_inds, ext, params, solver=solver, voltage_solver=vs)
            except Exception as e:
                # A refusal with an error is within the property.  Expected refusals: fwd_euler on branched morphologies
                # (NotImplementedError), with the jax.sparse backend (TypeError: unexpected keyword), or on branches with
                # different compartment numbers (reshape error).  An implicit scheme must never refuse here.
                uneven = len(set(int(topo.last[b] - topo.first[b]) for b in range(topo.nbranches))) > 1
                expected = solver == "fwd_euler" and (topo.B > 0 or vs == "jax.sparse" or uneven)
                structural(f"{nm}:raises only where a refusal is expected (fwd_euler: branched / jax.sparse / uneven branches)", expected,
                           f"{type(e).__name__}: {str(e)[:100]}")
                refusals.append(f"{solver}/{vs}: {type(e).__name__}: {str(e)[:80]}")
                continue
            reached.update(rt.reached)
            # stimulus conversion: I nA on compartment N-1 -> I*1e5/(2 pi r l) uA/cm2, divided by cm
            iext = [Sym(0)] * N
            iext[N - 1] = I * 100000 / (2 * cable.PI * params["radius"][N - 1] * params["length"][N - 1])
            cterm = [iext[i] / params["capacitance"][i] for i in range(N)]
            pos = [s.e > 0 for k in ("radius", "length", "capacitance") for s in params[k]] + D.PI_FACTS
            if solver in ("bwd_euler", "crank_nicolson"):
                ok = len(calls) == 1 and calls[0][0] == ("sparse" if vs == "jax.sparse" else "jaxley")
                structural(f"{nm}:exactly one implicit solve, routed to the selected backend", ok)
                if not ok:
                    continue
                kw = calls[0][1]
                want_dt = dt.e if solver == "bwd_euler" else dt.e / 2
                prove(f"{nm}:implicit solve receives delta_t {'dt' if solver == 'bwd_euler' else 'dt/2'}", [], Sym.lift(kw["delta_t"]).e == want_dt)
                structural(f"{nm}:implicit solve receives the current voltages", all(kw["voltages"][i].e.eq(v[i].e) for i in range(N)))
                structural(f"{nm}:backend name passed through", vs == "jax.sparse" or kw.get("solver") == vs)
                vt = kw["voltage_terms"]
                ct = kw["constant_terms"]
                prove(f"{nm}:membrane terms are divided by the capacitance (passive, one stimulus)", pos,
                      z3.And(*[Sym.lift(vt[i]).e == 0 for i in range(N)], *[Sym.lift(ct[i]).e == cterm[i].e for i in range(N)]))
                structural(f"{nm}:axial conductances passed unchanged", all(kw["axial_conductances"][k].e.eq(params["axial_conductances"][k].e) for k in range(ne)))
                if solver == "bwd_euler":
                    structural(f"{nm}:returns the implicit solution", all(new["v"][i].e.eq(H[i].e) for i in range(N)))
                else:
                    prove(f"{nm}:returns 2*h - v (Crank-Nicolson from the implicit half step)", [], z3.And(*[new["v"][i].e == 2 * H[i].e - v[i].e for i in range(N)]))
            else:
                # forward Euler (unbranched only): x = v + dt*(c - M v) with M, c from the specification
                P = dict(params)
                P["a"] = SymArray(np.asarray([Sym(0)] * N, dtype=object))
                P["c"] = SymArray(np.asarray(cterm, dtype=object))
                P["v"] = v
                from jaxley.utils.cell_utils import compute_axial_conductances
                g = Runtime().reglob(compute_axial_conductances)(module._comp_edges, {k: P[k] for k in ("radius", "length", "axial_resistivity", "capacitance")})
                # re-run with the real conductances so that the result is comparable with the physical specification
                Ctx.reset()
                rt2 = Runtime()
                px2 = Proxy(module, rt2)
                p2 = dict(params)
                p2["axial_conductances"] = g
                new2 = px2.step(dict(u), dt, ext_inds, ext, p2, solver=solver, voltage_solver=vs)
                spec = cable.system(topo, P, dt)
                for i in range(N):
                    co, rhs = spec[i]
                    expl = v[i] + (rhs - sum((s * v[c] for c, s in co.items()), Sym(0)))
                    prove(f"{nm}:compartment {i} == v + dt*(c - M v) (explicit Euler of the specification operator)", pos + [s.e > 0 for s in params["axial_resistivity"]],
                          new2["v"][i].e == expl.e)
    return results, {"reached": reached, "refused": refusals}


def crank_nicolson_lemma(topo, tag, timeout_ms=30000):
    """If h solves the backward-Euler specification system for dt/2, then x = 2h - v solves the Crank-Nicolson system
    (I + dt/2 M) x = (I - dt/2 M) v + dt c with the same Kirchhoff constraints at the branch points."""
    results = []
    N, B = topo.N, topo.B
    mk = lambda nm, n=N: SymArray(np.asarray([Sym(z3.Real(f"{nm}{i}")) for i in range(n)], dtype=object))
    P = {"radius": mk("r"), "length": mk("l"), "axial_resistivity": mk("ra"), "capacitance": mk("cm"), "a": mk("a"), "c": mk("c"), "v": mk("v")}
    dt = Sym(z3.Real("dt"))
    half = cable.system(topo, P, dt / 2)
    h = [z3.Real(f"h{i}") for i in range(N + B)]
    vfull = [P["v"][i].e for i in range(N)] + [z3.Real(f"vb{j}") for j in range(B)]
    x = [2 * h[i] - vfull[i] for i in range(N + B)]
    hyps = [dt.e > 0] + [s.e > 0 for k in ("radius", "length", "axial_resistivity", "capacitance") for s in P[k]] + D.PI_FACTS
    for r, (co, rhs) in enumerate(half):
        hyps.append(sum((s.e * h[c] for c, s in co.items()), z3.RealVal(0)) == rhs.e)
    for r in range(N, N + B):        # the previous voltages are Kirchhoff-consistent at the branch points
        co, rhs = half[r]
        hyps.append(sum((s.e * vfull[c] for c, s in co.items()), z3.RealVal(0)) == 0)
    for r, (co, rhs) in enumerate(half):
        Ax = sum((s.e * x[c] for c, s in co.items()), z3.RealVal(0))
        if r < N:
            Av = sum((s.e * vfull[c] for c, s in co.items()), z3.RealVal(0))
            goal = Ax == 2 * vfull[r] - Av + dt.e * P["c"][r].e
        else:
            goal = Ax == 0
        res = D.prove(f"lemma:crank_nicolson row[{r}]: A(dt/2)(2h-v) == (2I-A(dt/2))v + dt c[{tag}]", hyps, goal, timeout_ms=timeout_ms, use_cvc5=False)
        results.append(res.to_json())
    return results
