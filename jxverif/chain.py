"""C01 modular chain for the custom (Hines-style) voltage solver.

For one static structure the REAL functions of jaxley/solver_voltage.py run symbolically.  Contracts sit at every
function boundary of the elimination: the six step functions are wrapped; before each call the solver state is
replaced by FRESH symbols about which only the contract facts are known:

   wf(state)    : representation invariant (sign / row-sum conditions of an M-matrix view, structural zeros)
   sat(state,X) : X satisfies every row of the abstract view of the state

Each step must (a) divide only by provably non-zero pivots, (b) preserve `sat` (X still satisfies every row of the
post-state view) and (c) re-establish `wf`.  The first call additionally proves that the assembled system IS the
specification system (specs/cable.py) and the end proves that the view has become the identity, so the returned
voltages are X: the unique solution of the specification system.

The abstract view places the coupling of a parent branch to its branch point on the row where the specification has
it - the last REAL compartment of the parent branch - not where the code happens to put it.
"""
from __future__ import annotations

import inspect
import time

import numpy as np
import z3

from . import discharge as D
from .specs import cable
from .sym import Ctx, Runtime, Sym, SymArray

STATE = ["lowers", "diags", "uppers", "solves", "branchpoint_conds_children", "branchpoint_conds_parents",
         "branchpoint_weights_children", "branchpoint_weights_parents", "branchpoint_diags", "branchpoint_solves"]
# which state components each contract-bearing function returns, in order (checked against the code's arity at run time)
RETURNS = {
    "_triang_level": ["diags", "lowers", "solves", "uppers"],
    "_eliminate_children_lower": ["branchpoint_diags", "branchpoint_solves", "branchpoint_weights_children"],
    "_eliminate_parents_upper": ["diags", "solves", "branchpoint_conds_parents"],
    "_backsub_level": ["solves", "lowers", "diags"],
    "_eliminate_parents_lower": ["branchpoint_weights_parents", "branchpoint_solves"],
    "_eliminate_children_upper": ["branchpoint_conds_children", "solves"],
}
ARGNAME = {"bp_conds_children": "branchpoint_conds_children", "bp_conds_parents": "branchpoint_conds_parents",
           "bp_weights_children": "branchpoint_weights_children", "bp_weights_parents": "branchpoint_weights_parents"}


class Layout:
    """static layout of the padded solver state, read from the natively built module"""

    def __init__(self, module, topo):
        idx = module._solve_indexer
        self.idx = idx
        self.nb = int(module.total_nbranches)
        self.ncomp = np.asarray(module.ncomp_per_branch)
        self.cs = np.asarray(module.cumsum_ncomp)
        self.pcs = np.asarray(idx.cumsum_ncomp)
        self.P = int(self.pcs[-1])
        self.mask = np.asarray(idx.remapped_node_indices)
        self.par_inds = np.asarray(module._par_inds)
        self.child_inds = np.asarray(module._child_inds)
        self.child_bp = np.asarray(module._child_belongs_to_branchpoint)
        self.B = len(self.par_inds)
        self.first = {b: int(self.pcs[b]) for b in range(self.nb)}
        self.blockend = {b: int(self.pcs[b + 1]) - 1 for b in range(self.nb)}
        # specification side: the last REAL compartment of branch b, through the compartment numbering of the spec
        self.last_real = {b: int(self.mask[topo.last[b]]) for b in range(self.nb)}
        self.bp_of_child = {int(c): int(j) for c, j in zip(self.child_inds, self.child_bp)}
        self.bp_of_parent = {int(p): j for j, p in enumerate(self.par_inds)}
        self.block_of = {}
        for b in range(self.nb):
            for p in range(self.first[b], self.blockend[b] + 1):
                self.block_of[p] = b


def layout_obligations(L: Layout, topo):
    """structural facts the chain relies on, checked per structure (concrete, decided by evaluation)"""
    out = []
    N = topo.N
    real = [int(L.mask[i]) for i in range(N)]
    out.append(("layout:mask injective", len(set(real)) == N))
    out.append(("layout:mask(i) inside the block of its branch", all(L.first[topo.branch_of_comp[i]] <= real[i] <= L.blockend[topo.branch_of_comp[i]] for i in range(N))))
    out.append(("layout:mask(first real compartment of b) == first(b)", all(real[topo.first[b]] == L.first[b] for b in range(L.nb))))
    out.append(("layout:consecutive compartments of a branch are adjacent slots", all(real[i + 1] == real[i] + 1 for i in range(N - 1) if topo.branch_of_comp[i] == topo.branch_of_comp[i + 1])))
    out.append(("layout:blocks partition the padded index space", sorted(L.block_of) == list(range(L.P))))
    out.append(("layout:par_inds are exactly the branches with children", sorted(map(int, L.par_inds)) == sorted(topo.children)))
    ok = True
    for c, j in L.bp_of_child.items():
        par = int(L.par_inds[j])
        ok = ok and c in topo.children.get(par, [])
    ok = ok and sorted(L.bp_of_child) == sorted(c for kids in topo.children.values() for c in kids)
    out.append(("layout:every child branch is attached to the branch point of its own parent", ok))
    return out


def view(st, L):
    """abstract view: rows [(coeffs {col: Sym}, rhs Sym)]; cols 0..P-1 padded compartments, P..P+B-1 branch points"""
    rows = []
    for p in range(L.P):
        b = L.block_of[p]
        co = {p: st["diags"][p]}
        if p > L.first[b]:
            co[p - 1] = st["lowers"][p]
        if p < L.blockend[b]:
            co[p + 1] = st["uppers"][p]
        if p == L.first[b] and b in L.bp_of_child:
            co[L.P + L.bp_of_child[b]] = st["branchpoint_conds_children"][b]
        if p == L.last_real[b] and b in L.bp_of_parent:
            c = L.P + L.bp_of_parent[b]
            co[c] = co.get(c, Sym(0)) + st["branchpoint_conds_parents"][b]
        rows.append((co, st["solves"][p]))
    for j in range(L.B):
        co = {L.P + j: st["branchpoint_diags"][j]}
        for b, jj in L.bp_of_child.items():
            if jj == j:
                co[L.first[b]] = st["branchpoint_weights_children"][b]
        pb = int(L.par_inds[j])
        c = L.last_real[pb]
        co[c] = co.get(c, Sym(0)) + st["branchpoint_weights_parents"][pb]
        rows.append((co, st["branchpoint_solves"][j]))
    return rows


def is_const(s, val=None):
    return s.c is not None and (val is None or s.c == val)


def row_eq(row, X):
    co, rhs = row
    lhs = z3.RealVal(0)
    for c, s in co.items():
        if not is_const(s, 0):
            lhs = lhs + s.e * X[c]
    return lhs == rhs.e


def wf_facts(rows, L):
    """comp rows: off-diagonals <= 0, row sum > 0 (=> diag > 0).  branch-point rows: off-diagonals >= 0, diag < 0,
    row sum <= 0."""
    f = []
    for r, (co, rhs) in enumerate(rows):
        rs = z3.RealVal(0)
        for c, s in co.items():
            rs = rs + s.e
        for c, s in co.items():
            if c != r and not is_const(s, 0):
                f.append(s.e <= 0 if r < L.P else s.e >= 0)
        if r < L.P:
            f.append(rs > 0)
        else:
            f += [co[r].e < 0, rs <= 0]
    return f


class Chain:
    def __init__(self, L, X, tag, timeout_ms=30000):
        self.L, self.X, self.tag = L, X, tag
        self.state = None
        self.facts = []
        self.results = []
        self.fresh_n = 0
        self.timeout_ms = timeout_ms
        self.calls = {}

    def prove(self, name, hyps, goal):
        r = D.prove(f"{name}[{self.tag}]", hyps, goal, timeout_ms=self.timeout_ms, use_cvc5=False)
        self.results.append(r.to_json())
        return r.status == "proved"

    def structural(self, name, ok, detail=""):
        self.results.append({"name": f"{name}[{self.tag}]", "status": "proved" if ok else "refuted", "backend": "structural",
                             "time_s": 0.0, "model": {}, "detail": detail})

    def freshen(self, st):
        new = {}
        for k, arr_ in st.items():
            out = []
            for s in arr_:
                if is_const(s):
                    out.append(Sym(s.c))
                else:
                    self.fresh_n += 1
                    out.append(Sym(z3.Real(f"{k[:2]}{k.split('_')[-1][:2]}!{self.fresh_n}")))
            new[k] = SymArray(np.asarray(out, dtype=object))
        return new

    def step(self, fname, args_by_name, call):
        L, X = self.L, self.X
        self.calls[fname] = self.calls.get(fname, 0) + 1
        nm = f"solver_voltage.{fname}#{self.calls[fname]}"
        pre_state = dict(self.state)
        for k, v in args_by_name.items():
            if k in pre_state:
                pre_state[k] = v
        pre_rows = view(pre_state, L)
        pre_eqs = [row_eq(r, X) for r in pre_rows]
        hyps = list(self.facts)
        n0 = len(Ctx.strict)
        out = call()
        new_ids = Ctx.strict[n0:]
        # (a) every denominator is non-zero, in program order (earlier ones are available to later ones)
        for k in new_ids:
            kind, cond, desc = Ctx.defs[k]
            self.prove(f"{nm}:pivot#{k - (new_ids[0] if new_ids else 0)}!=0", hyps, cond)
            hyps.append(cond)
        outs = out if isinstance(out, tuple) else (out,)
        if len(outs) != len(RETURNS[fname]):
            raise RuntimeError(f"{fname} returns {len(outs)} values, contract expects {len(RETURNS[fname])}")
        post_state = dict(pre_state)
        for k, v in zip(RETURNS[fname], outs):
            if np.shape(v) != np.shape(pre_state[k]):
                raise RuntimeError(f"{fname}: shape of {k} changed")
            post_state[k] = v
        post_rows = view(post_state, L)
        # (b) solution preserved
        for r, row in enumerate(post_rows):
            g = row_eq(row, X)
            if g.eq(pre_eqs[r]):
                continue
            self.prove(f"{nm}:row_preserved[{r}]", hyps, g)
        # (c) wf re-established
        known = {h.get_id() for h in hyps}
        for i, g in enumerate(wf_facts(post_rows, L)):
            if g.get_id() in known:
                continue
            self.prove(f"{nm}:wf[{i}]", hyps, g)
        self.state = self.freshen(post_state)
        rows = view(self.state, L)
        self.facts = [row_eq(r, X) for r in rows] + wf_facts(rows, L)
        res = tuple(self.state[k] for k in RETURNS[fname])
        return res if isinstance(out, tuple) else res[0]


def spec_rows_padded(L: Layout, topo, spec):
    """specification rows re-indexed to the padded space of the solver (padded slots: x = 0 identity rows)"""
    P = L.P
    col = {}
    for i in range(topo.N):
        col[i] = int(L.mask[i])
    for par, node in topo.bp_of_parent.items():
        col[node] = P + L.bp_of_parent[par]
    rows = [({p: Sym(1)}, Sym(0)) for p in range(P)] + [None] * L.B
    for n, (co, rhs) in enumerate(spec):
        rows[col[n]] = ({col[c]: s for c, s in co.items()}, rhs)
    return rows


def same_row(co, rhs, sco, srhs, hyps, prove, name, up_to_scale=False, diag=None):
    cols = sorted(set(co) | set(sco))
    zero = Sym(0)
    if not up_to_scale:
        goal = z3.And(*[co.get(c, zero).e == sco.get(c, zero).e for c in cols], rhs.e == srhs.e)
        return prove(name, hyps, goal)
    a0, s0 = co.get(diag, zero).e, sco.get(diag, zero).e
    goal = z3.And(a0 != 0, s0 != 0, *[co.get(c, zero).e * s0 == sco.get(c, zero).e * a0 for c in cols], rhs.e * s0 == srhs.e * a0)
    return prove(name, hyps, goal)


def run_jaxley_chain(module, topo, P, dt, solver, tag, timeout_ms=30000):
    """-> (results, info).  P: symbolic physical parameters and membrane terms (see specs/cable.system)."""
    import jaxley.solver_voltage as SV
    from jaxley.utils.cell_utils import compute_axial_conductances
    L = Layout(module, topo)
    N = topo.N
    X = [z3.Real(f"x{p}") for p in range(L.P)] + [z3.Real(f"xb{j}") for j in range(L.B)]
    ch = Chain(L, X, tag, timeout_ms)
    for nm, ok in layout_obligations(L, topo):
        ch.structural(nm, ok)
    pos = [dt.e > 0]
    for k in ("radius", "length", "axial_resistivity", "capacitance"):
        pos += [s.e > 0 for s in P[k]]
    pos += [s.e >= 0 for s in P["a"]]
    pos += D.PI_FACTS
    rt = Runtime()
    ce = module._comp_edges
    sinks, sources, types = (np.asarray(ce[c].to_list()) for c in ("sink", "source", "type"))
    # real compute_axial_conductances on the symbolic physical parameters
    n0 = len(Ctx.strict)
    g = rt.reglob(compute_axial_conductances)(ce, {k: P[k] for k in ("radius", "length", "axial_resistivity", "capacitance")})
    for k in Ctx.strict[n0:]:
        ch.prove(f"cell_utils.compute_axial_conductances:defined#{k - n0}", pos, Ctx.defs[k][1])
        pos.append(Ctx.defs[k][1])
    spec = spec_rows_padded(L, topo, cable.system(topo, P, dt))
    first_call = [True]
    INIT = {}
    over = {}

    def make(fname):
        realfn = getattr(SV, fname)
        real = rt.reglob(realfn)
        params = list(inspect.signature(realfn).parameters)

        def wrapper(*args):
            byname = {ARGNAME.get(p, p): a_ for p, a_ in zip(params, args)}
            if first_call[0]:
                first_call[0] = False
                st0 = {k: byname[k] for k in STATE if k in byname}
                for k in STATE:
                    if k not in st0:
                        st0[k] = INIT[k]
                rows0 = view(st0, L)
                for r, ((co, rhs), (sco, srhs)) in enumerate(zip(rows0, spec)):
                    same_row(co, rhs, sco, srhs, pos, ch.prove, f"solver_voltage.step_voltage_implicit_with_jaxley_spsolve:assembled row[{r}]==spec",
                             up_to_scale=r >= L.P, diag=r)
                for i, gf in enumerate(wf_facts(rows0, L)):
                    ch.prove(f"solver_voltage.step_voltage_implicit_with_jaxley_spsolve:assembled wf[{i}]", pos, gf)
                ch.state = ch.freshen(st0)
                rows = view(ch.state, L)
                ch.facts = [row_eq(r, X) for r in rows] + wf_facts(rows, L)
            args = tuple(ch.state[ARGNAME.get(p, p)] if ARGNAME.get(p, p) in ch.state else a_ for p, a_ in zip(params, args))
            byname = {ARGNAME.get(p, p): a_ for p, a_ in zip(params, args)}
            return ch.step(fname, byname, lambda: real(*args))
        return wrapper
    for fname in RETURNS:
        over[fname] = make(fname)
    real_tb = rt.reglob(SV._triang_branched).__reglob__
    real_bb = rt.reglob(SV._backsub_branched).__reglob__

    def tb(lowers, diags, uppers, solves, bcc, bcp, bwc, bwp, bd, bs, *rest):
        INIT.update(dict(zip(STATE, [lowers, diags, uppers, solves, bcc, bcp, bwc, bwp, bd, bs])))
        return real_tb(lowers, diags, uppers, solves, bcc, bcp, bwc, bwp, bd, bs, *rest)
    real_tb.__globals__.update(over)
    top = rt.reglob(SV.step_voltage_implicit_with_jaxley_spsolve).__reglob__
    top.__globals__.update({"_triang_branched": tb, "_backsub_branched": real_bb})
    info = {"refused": ""}
    try:
        out = top(P["v"], P["a"], P["c"], g, np.asarray(module._internal_node_inds), sinks, sources, types, L.ncomp,
                  L.par_inds, L.child_inds, L.nb, solver, dt, L.idx, {})
    except AssertionError as e:
        info["refused"] = f"AssertionError: {str(e)[:120]}"
        return ch.results, info
    if ch.state is None:
        raise RuntimeError("no contract-bearing solver function was called")
    rows = view(ch.state, L)
    ident = all(all(is_const(s, 1 if cc == r else 0) for cc, s in co.items()) for r, (co, rhs) in enumerate(rows[:L.P]))
    ch.structural("solver_voltage._backsub_branched:final view is the identity on compartments", ident)
    ret_ok = len(out) == N and all(out[i].e.eq(ch.state["solves"][int(L.mask[i])].e) for i in range(N))
    ch.structural("solver_voltage.step_voltage_implicit_with_jaxley_spsolve:returns solves[mask(i)] for every compartment i", ret_ok)
    info["reached"] = dict(rt.reached)
    info["calls"] = dict(ch.calls)
    return ch.results, info


def run_sparse(module, topo, P, dt, tag, timeout_ms=30000):
    """jax.sparse backend: the real assembly code runs; `jax_spsolve` is a contract stub that receives the sparse arrays.
    The matrix they denote (by the definition of CSR, which is what jax's spsolve documents) must be the specification
    system."""
    import jaxley.solver_voltage as SV
    from jaxley.utils.cell_utils import compute_axial_conductances
    results = []

    def prove(name, hyps, goal):
        r = D.prove(f"{name}[{tag}]", hyps, goal, timeout_ms=timeout_ms, use_cvc5=False)
        results.append(r.to_json())
        return r.status == "proved"

    def structural(name, ok, detail=""):
        results.append({"name": f"{name}[{tag}]", "status": "proved" if ok else "refuted", "backend": "structural", "time_s": 0.0, "model": {}, "detail": detail})
    pos = [dt.e > 0]
    for k in ("radius", "length", "axial_resistivity", "capacitance"):
        pos += [s.e > 0 for s in P[k]]
    pos += [s.e >= 0 for s in P["a"]] + D.PI_FACTS
    rt = Runtime()
    ce = module._comp_edges
    g = rt.reglob(compute_axial_conductances)(ce, {k: P[k] for k in ("radius", "length", "axial_resistivity", "capacitance")})
    n_nodes = int(module._n_nodes)
    captured = {}
    Xs = SymArray(np.asarray([Sym(z3.Real(f"xs{i}")) for i in range(n_nodes)], dtype=object))

    def spsolve_stub(data, indices, indptr, b, **kw):
        captured.update(data=data, indices=np.asarray(indices), indptr=np.asarray(indptr), b=b)
        return Xs
    rt.stub(SV.jax_spsolve, spsolve_stub)
    top = rt.reglob(SV.step_voltage_implicit_with_jax_spsolve)
    internal = np.asarray(module._internal_node_inds)
    out = top(P["v"], P["a"], P["c"], g, np.asarray(module._data_inds), module._indices_jax_spsolve, module._indptr_jax_spsolve,
              np.asarray(ce["sink"].to_list()), dt, n_nodes, internal)
    if not captured:
        raise RuntimeError("jax_spsolve was not called")
    data, indices, indptr, b = captured["data"], captured["indices"], captured["indptr"], captured["b"]
    structural("solver_utils.convert_to_csc:indptr is a monotone partition of the data", len(indptr) == n_nodes + 1 and indptr[0] == 0 and indptr[-1] == len(data) and bool(np.all(np.diff(indptr) >= 0)))
    structural("solver_utils.convert_to_csc:row indices in range", bool(np.all((indices >= 0) & (indices < n_nodes))))
    # jax.experimental.sparse.linalg.spsolve takes the matrix in CSR form: `indptr` are ROW pointers and `indices`
    # COLUMN indices (jaxley's helper is named convert_to_csc, but what it builds is consumed as CSR)
    M = [dict() for _ in range(n_nodes)]
    for row in range(n_nodes):
        for k in range(indptr[row], indptr[row + 1]):
            c_ = int(indices[k])
            M[row][c_] = M[row].get(c_, Sym(0)) + data[k]
    # node correspondence: compartments are numbered identically; branch point of parent branch p <-> the node that the
    # real comp_edges attach to the last compartment of p (type 1 edge: sink = compartment, source = branch point)
    N = topo.N
    col = {i: i for i in range(N)}
    srcs, snks, tys = (np.asarray(ce[c].to_list()) for c in ("source", "sink", "type"))
    ok = n_nodes == N + topo.B and sorted(map(int, internal)) == list(range(N))
    for par, node in topo.bp_of_parent.items():
        cand = [int(s) for s, k, t in zip(srcs, snks, tys) if t == 1 and int(k) == topo.last[par]]
        if len(cand) != 1:
            ok = False
            continue
        col[node] = cand[0]
    ok = ok and len(set(col.values())) == N + topo.B
    structural("Module._init_morph_jax_spsolve:nodes = compartments + one branch point per branching parent", ok)
    if ok:
        spec = cable.system(topo, P, dt)
        for n, (sco, srhs) in enumerate(spec):
            r_ = col[n]
            sco2 = {col[c]: s for c, s in sco.items()}
            same_row(M[r_], b[r_], sco2, srhs, pos, prove, f"solver_voltage.step_voltage_implicit_with_jax_spsolve:CSR row[{r_}]==spec",
                     up_to_scale=n >= N, diag=r_)
    ret_ok = len(out) == N and all(out[i].e.eq(Xs[int(internal[i])].e) for i in range(N))
    structural("solver_voltage.step_voltage_implicit_with_jax_spsolve:returns the solution at the compartment nodes", ret_ok)
    return results, {"reached": dict(rt.reached)}
