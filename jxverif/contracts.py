"""Sidecar contracts on real jaxley functions and modular body verification.

A `Contract` names a function of /repo by module and qualified name.  `verify_body` runs the *real* code
object symbolically under `requires`, with every callee that has a contract of its own replaced by a stub
that (i) raises the obligation "callee.requires holds here" and (ii) returns the callee's `spec` term (or
fresh symbols) and contributes the callee's `ensures` as facts.  The obligations generated:

  <fn>:api                  every modelled JAX primitive call binds against the installed signature
  <fn>:call[k]:<callee>.requires#j
  <fn>:defined#k            value-level definedness of every returned term (denominators, log arguments)
  <fn>:strict#k             (optional) every definedness condition generated, including un-selected where-branches
  <fn>:<ensures name>       named postconditions
"""
from __future__ import annotations

import importlib
import inspect
import traceback
from dataclasses import dataclass, field

import numpy as np
import z3

from . import discharge as D
from .sym import (ApiMismatch, Ctx, IndexOutOfBounds, Proxy, Runtime, Sym, SymArray, SymBool, Unsupported, unwrap)


class TargetMissing(Exception):
    pass


def resolve(target):
    """'jaxley.channels.hh:HH.m_gate' -> (owner class or None, function object)"""
    target = target.split("#")[0]          # "module:Class.method#variant" names a variant contract of the same function
    mod, _, qual = target.partition(":")
    try:
        m = importlib.import_module(mod)
    except Exception as e:
        raise TargetMissing(f"{target}: cannot import {mod}: {e}")
    if mod == "jaxley.integrate":
        import sys
        m = sys.modules["jaxley.integrate"]
    obj, owner = m, None
    for part in qual.split("."):
        owner = obj if inspect.isclass(obj) else None
        if not hasattr(obj, part):
            raise TargetMissing(f"{target}: {part} not found")
        obj = inspect.getattr_static(obj, part) if inspect.isclass(obj) else getattr(obj, part)
    if isinstance(obj, (staticmethod, classmethod)):
        obj = obj.__func__
    obj = unwrap(obj)
    if not inspect.isfunction(obj):
        raise TargetMissing(f"{target}: not a function")
    return owner, obj


@dataclass
class Contract:
    target: str
    # symbolic inputs: () -> dict(name -> Sym | concrete)   (names must be the real parameter names)
    inputs: callable
    requires: callable = lambda a: []                 # a -> [z3 Bool]
    ensures: dict = field(default_factory=dict)       # name -> (a, res) -> z3 Bool
    spec: callable = None                             # a -> result (Sym or tuple of Sym): exact specification function
    result_names: tuple = ()                          # names for fresh result symbols when there is no spec
    self_factory: callable = None                     # () -> instance, for methods
    callees: tuple = ()                               # targets of contracts used as stubs inside the body
    boxes: callable = None                            # a -> {z3 var name: (lo, hi)} for witness search
    special: dict = field(default_factory=dict)       # var name -> values whose neighbourhoods the witness search visits
    note: str = ""
    # intermediate helper (not named by any property): when its code no longer exists under this name (renamed / inlined by
    # a refactoring) the contract is skipped with a NOTE and its callers execute whatever code they now contain
    optional: bool = False

    @property
    def short(self):
        return self.target.replace("jaxley.", "").replace(":", ".")


class Registry:
    def __init__(self):
        self.c = {}

    def add(self, c: Contract):
        self.c[c.target] = c
        return c

    def __getitem__(self, t):
        return self.c[t]

    def __contains__(self, t):
        return t in self.c


def _bind(fn, args, kwargs, drop_self):
    sig = inspect.signature(fn)
    params = list(sig.parameters.values())
    if drop_self:
        params = params[1:]
    sig = sig.replace(parameters=params)
    b = sig.bind(*args, **kwargs)
    b.apply_defaults()
    return dict(b.arguments)


def _scalarize(x):
    if isinstance(x, np.ndarray) and x.dtype == object and x.shape == ():
        return x.item()
    if isinstance(x, (int, float, np.number)) and not isinstance(x, (bool, np.bool_)):
        return Sym(x)
    return x


def make_stub(c: Contract, counter):
    owner, fn = resolve(c.target)
    is_method = owner is not None and not isinstance(inspect.getattr_static(owner, fn.__name__), staticmethod)

    def stub(*args, **kwargs):
        if is_method and args and (isinstance(args[0], Proxy) or isinstance(args[0], owner)):
            self_obj, args = args[0], args[1:]
        else:
            self_obj = None
        a = _bind(fn, args, kwargs, is_method)
        a = {k: _scalarize(v) for k, v in a.items()}
        if self_obj is not None:
            a["self"] = self_obj
        for v in a.values():
            if isinstance(v, SymArray):
                # contracts are stated on scalars; vectorised calls are applied elementwise
                return _vector_stub(stub, fn, a, is_method)
        k = counter[0]
        counter[0] += 1
        reqs = list(c.requires(a))
        for j, r in enumerate(reqs):
            Ctx.call_obl.append((f"call[{k}]:{c.short}.requires#{j}", r, len(Ctx.facts)))
        if c.spec is not None:
            res = c.spec(a)
        else:
            res = uf_result(c, a)
        for name, ens in c.ensures.items():
            f = ens(a, res)
            if f is not None:
                # the callee's postcondition is available only where its precondition holds
                Ctx.facts.append(z3.Implies(z3.And(*reqs), f) if reqs else f)
        return res
    stub.__name__ = f"stub<{c.short}>"
    return fn, stub


def _flat_numeric(a):
    out = []
    for k, v in a.items():
        if k == "self":
            continue
        if isinstance(v, Sym):
            out.append(v)
        elif isinstance(v, dict):
            for kk in sorted(v):
                if isinstance(v[kk], Sym):
                    out.append(v[kk])
    return out


def uf_result(c: Contract, a):
    """Result of a contract without explicit spec: applications of uninterpreted functions (one per result
    name) to the numeric arguments.  Pure functions of their arguments - the same call yields the same term."""
    names = c.result_names or ("res",)
    xs = _flat_numeric(a)
    d = frozenset().union(*[x.d for x in xs]) if xs else frozenset()
    outs = []
    for n in names:
        if xs:
            f = z3.Function(f"{c.short}.{n}", *([z3.RealSort()] * (len(xs) + 1)))
            outs.append(Sym(f(*[x.e for x in xs]), d=d))
        else:
            outs.append(Sym(z3.Real(f"{c.short}.{n}")))
    return tuple(outs) if len(outs) > 1 else outs[0]


def _vector_stub(stub, fn, a, is_method):
    shape = None
    for v in a.values():
        if isinstance(v, SymArray):
            shape = v.shape
            break
    outs = []
    for ix in np.ndindex(shape):
        aa = {k: (v[ix] if isinstance(v, SymArray) else v) for k, v in a.items()}
        self_obj = aa.pop("self", None)
        outs.append(stub(*( [self_obj] if self_obj is not None else []), **aa))
    if isinstance(outs[0], tuple):
        return tuple(SymArray(np.asarray([o[j] for o in outs], dtype=object).reshape(shape)) for j in range(len(outs[0])))
    return SymArray(np.asarray(outs, dtype=object).reshape(shape))


@dataclass
class BodyRun:
    contract: Contract
    args: dict = None
    result: object = None
    hyps: list = None
    error: str = ""
    error_kind: str = ""      # api | index | unsupported | exception
    reached: dict = None
    api_calls: dict = None
    strict_ids: list = None
    defs: list = None
    facts: list = None
    call_obl: list = None
    exp_args: list = None
    null_selects: list = None


def run_body(c: Contract, reg: Registry, extra_overrides=None) -> BodyRun:
    """Execute the real code object of c.target on the contract's symbolic inputs."""
    owner, fn = resolve(c.target)
    Ctx.reset()
    counter = [0]
    rt = Runtime(overrides=extra_overrides)
    for t in c.callees:
        try:
            real, stub = make_stub(reg[t], counter)
        except TargetMissing:
            if reg[t].optional:
                continue            # helper renamed / inlined: the caller's body is executed through the real code
            raise
        rt.stub(real, stub)
    a = c.inputs()
    run = BodyRun(c, args=a)
    run.hyps = list(c.requires(a))
    try:
        f = rt.reglob(fn)
        is_method = owner is not None and not isinstance(inspect.getattr_static(owner, fn.__name__), staticmethod)
        if is_method:
            inst = c.self_factory() if c.self_factory else owner()
            px = Proxy(inst, rt)
            a_call = dict(a)
            a["self"] = inst
            run.result = f(px, **a_call)
        else:
            run.result = f(**a)
    except ApiMismatch as e:
        run.error, run.error_kind = str(e), "api"
    except IndexOutOfBounds as e:
        run.error, run.error_kind = str(e), "index"
    except Unsupported as e:
        run.error, run.error_kind = str(e), "unsupported"
    except Exception as e:  # the real code raised under the shim
        run.error, run.error_kind = f"{type(e).__name__}: {e}\n{traceback.format_exc(limit=6)}", "exception"
    run.reached = dict(rt.reached)
    run.api_calls = dict(Ctx.api_calls)
    run.defs = list(Ctx.defs)
    run.strict_ids = list(Ctx.strict)
    run.facts = list(Ctx.facts)
    run.call_obl = list(Ctx.call_obl)
    run.exp_args = list(Ctx.exp_args)
    run.null_selects = list(Ctx.null_selects)
    return run


def leaves(res):
    """flatten a result (Sym, tuple, dict, SymArray) into [(path, Sym)]"""
    out = []

    def rec(p, x):
        if isinstance(x, Sym):
            out.append((p, x))
        elif isinstance(x, dict):
            for k in x:
                rec(f"{p}.{k}" if p else str(k), x[k])
        elif isinstance(x, (tuple, list)):
            for i, v in enumerate(x):
                rec(f"{p}[{i}]", v)
        elif isinstance(x, np.ndarray) and x.dtype == object:
            for ix in np.ndindex(x.shape):
                rec(f"{p}{list(ix)}", x[ix])
    rec("", res)
    return out


def body_obligations(run: BodyRun, strict=False, only=None):
    """-> list of (name, hyps, goal).  `only`: restrict to ensures whose name passes the predicate."""
    c = run.contract
    obls = []
    hyps = list(run.hyps)
    for (nm, cond, nfacts) in run.call_obl:
        obls.append((f"{c.short}:{nm}", hyps + run.facts[:nfacts], cond))
    allh = hyps + run.facts
    if run.result is not None:
        ids = set()
        for p, s in leaves(run.result):
            ids |= set(s.d)
        for k in sorted(ids):
            kind, cond, desc = run.defs[k]
            obls.append((f"{c.short}:defined#{k}[{kind}]", allh, cond))
        if strict:
            for k in run.strict_ids:
                if k in ids:
                    continue
                kind, cond, desc = run.defs[k]
                obls.append((f"{c.short}:strict#{k}[{kind}]", allh, cond))
        if strict and run.null_selects:
            from .discharge import null_select_obligations
            obls += null_select_obligations(c.short, allh, run.null_selects)
        # no overflow: every exponential evaluated by the body has an argument bounded above (exp(709.8) overflows float64 (88.7 float32);
        # the repository's own safeguard is save_exp's clip at 20
        seen_exp = set()
        for k, a in enumerate(run.exp_args or []):
            if a.get_id() in seen_exp:
                continue
            seen_exp.add(a.get_id())
            obls.append((f"{c.short}:no overflow: exp argument #{k} <= 700", allh, a <= 700))
        for name, ens in c.ensures.items():
            if only is not None and not only(name):
                continue
            g = ens(run.args, run.result)
            if g is None:
                continue
            # definedness conditions of the result are established by their own obligations
            dh = [run.defs[k][1] for k in sorted(ids)]
            obls.append((f"{c.short}:{name}", allh + dh, g))
    return obls
