"""CLI:  python -m jxverif <ID> quick|thorough   |   python -m jxverif --replay <file>"""
import importlib
import json
import os
import sys
import traceback


def main(argv):
    if not argv:
        print(__doc__)
        return 3
    if argv[0] == "--replay":
        from .replay import replay_file
        return replay_file(argv[1])
    pid = argv[0]
    tier = argv[1] if len(argv) > 1 else os.environ.get("VERIF_TIER", "quick")
    if tier not in ("quick", "thorough"):
        tier = "quick"
    try:
        mod = importlib.import_module(f"jxverif.props.{pid}")
    except ModuleNotFoundError:
        print(f"CHECKER-ERROR no driver for property {pid}")
        return 3
    try:
        return mod.main(tier)
    except Exception as e:
        print(f"CHECKER-ERROR property={pid} {type(e).__name__}: {e}")
        traceback.print_exc()
        return 3


if __name__ == "__main__":
    sys.exit(main(sys.argv[1:]))
