"""E1 - symbolic runtime.

Real jaxley function objects are *re-globalised*: a new function is built from the very same code
object (`fn.__code__`) whose global names `jnp`, `jax`, `vmap`, `lax`, ... resolve to the symbolic model
of the JAX primitives defined here.  Arrays hold `Sym` scalars (z3 real terms).  Nothing of a function
body is transcribed.

Every term carries the set of *value-level* definedness conditions it depends on (`where(c,a,b)` needs
`a` defined only under `c`); every definedness condition ever generated is also logged globally
(*strict* definedness: what reverse-mode AD needs).
"""
from __future__ import annotations

import inspect
import itertools
import math
import types
from fractions import Fraction

import numpy as np
import z3

R = z3.RealSort()
E = z3.Function("EXP", R, R)
L = z3.Function("LOG", R, R)
TH = z3.Function("TANH", R, R)
SQ = z3.Function("SQRT", R, R)


class Unsupported(Exception):
    """The code under verification used a primitive (or a calling pattern) the models do not cover."""


class ApiMismatch(Exception):
    """A call into a modelled JAX primitive does not bind against the installed JAX signature."""


# ----------------------------------------------------------------------------------------------
# recording context
# ----------------------------------------------------------------------------------------------
class Ctx:
    """Global recording context of one symbolic run."""

    defs: list = []          # id -> (kind, z3 Bool that must hold, description)
    strict: list = []        # ids in program order (every definedness condition generated)
    clips: list = []         # (If-term, condition under which the clip is inactive)
    guards: list = []        # (If-term, guard condition) of every symbolic where
    index_obl: list = []     # (description, ok: bool)  gather/scatter index obligations
    hint_obl: list = []      # (hint name, ok, indices) promises made to XLA about scatter indices
    exp_args: list = []      # arguments of every exp evaluated by the code under verification
    api_calls: dict = {}     # primitive name -> number of conformant calls
    facts: list = []         # facts contributed by contract stubs (callee ensures)
    call_obl: list = []      # (name, z3 Bool) obligations raised at call sites (callee requires)
    poison: int = 0

    @classmethod
    def reset(cls):
        cls.defs = []
        cls.strict = []
        cls.clips = []
        cls.guards = []
        cls.null_selects = []        # (condition of a select that holds on a null set only, branch taken there, other branch)
        cls.index_obl = []
        cls.hint_obl = []
        cls.exp_args = []
        cls.api_calls = {}
        cls.facts = []
        cls.call_obl = []
        cls.poison = 0

    @classmethod
    def new_def(cls, kind, cond, desc):
        cls.defs.append((kind, cond, desc))
        i = len(cls.defs) - 1
        cls.strict.append(i)
        return i


def frac_of(x):
    """Python number -> exact Fraction of the *decimal numeral* (0.1 -> 1/10)."""
    if isinstance(x, Fraction):
        return x
    if isinstance(x, (bool, np.bool_)):
        return Fraction(int(x))
    if isinstance(x, (int, np.integer)):
        return Fraction(int(x))
    f = float(x)
    if math.isnan(f) or math.isinf(f):
        raise Unsupported(f"non-finite literal {f}")
    return Fraction(repr(f))


def rv(fr):
    fr = Fraction(fr)
    return z3.RealVal(f"{fr.numerator}/{fr.denominator}" if fr.denominator != 1 else str(fr.numerator))


_EMPTY = frozenset()


class Sym:
    """Real-valued symbolic scalar: z3 term + constant value (if any) + value-level definedness ids."""

    __slots__ = ("e", "c", "d")
    __array_ufunc__ = None
    __array_priority__ = 1000

    def __init__(self, e, c=None, d=_EMPTY):
        if z3.is_expr(e):
            self.e = e
            self.c = c
        else:
            self.c = frac_of(e)
            self.e = rv(self.c)
        self.d = d

    # -- construction helpers
    @staticmethod
    def var(name):
        return Sym(z3.Real(name))

    @staticmethod
    def lift(x):
        if isinstance(x, Sym):
            return x
        if isinstance(x, SymBool):
            raise Unsupported("boolean used as number")
        if isinstance(x, (int, float, Fraction, np.number, bool, np.bool_)):
            return Sym(x)
        if isinstance(x, np.ndarray) and x.shape == () and x.dtype != object:
            return Sym(x.item())
        if isinstance(x, np.ndarray) and x.shape == () and x.dtype == object:
            return Sym.lift(x.item())
        if hasattr(x, "shape") and getattr(x, "shape") == () and hasattr(x, "dtype"):
            return Sym(float(x))
        return None

    def _bin(self, o, op, refl=False):
        if isinstance(o, np.ndarray) and o.shape != ():
            out = np.empty(o.shape, dtype=object)
            flat = out.reshape(-1)
            for k, v in enumerate(np.asarray(o, dtype=object).reshape(-1)):
                flat[k] = self._bin(v, op, refl)
            return out.view(SymArray)
        if type(o).__module__.startswith("jax") and getattr(o, "shape", None) not in ((), None):
            return self._bin(np.asarray(o), op, refl)
        o = Sym.lift(o)
        if o is None:
            return NotImplemented
        a, b = (o, self) if refl else (self, o)
        return _arith(a, b, op)

    def __add__(s, o): return s._bin(o, "+")
    def __radd__(s, o): return s._bin(o, "+", True)
    def __sub__(s, o): return s._bin(o, "-")
    def __rsub__(s, o): return s._bin(o, "-", True)
    def __mul__(s, o): return s._bin(o, "*")
    def __rmul__(s, o): return s._bin(o, "*", True)
    def __truediv__(s, o): return s._bin(o, "/")
    def __rtruediv__(s, o): return s._bin(o, "/", True)
    def __neg__(s):
        if s.c is not None:
            return Sym(-s.c, d=s.d)
        return Sym(-s.e, d=s.d)
    def __pos__(s): return s
    def __abs__(s): return sabs(s)

    def __pow__(s, k):
        kk = Sym.lift(k)
        if kk is None or kk.c is None:
            raise Unsupported("symbolic exponent")
        k = kk.c
        if k.denominator != 1:
            if k == Fraction(1, 2):
                return ssqrt(s)
            raise Unsupported(f"non-integer exponent {k}")
        k = int(k)
        if k < 0:
            return Sym(1) / (s ** (-k))
        r = Sym(1)
        for _ in range(k):
            r = r * s
        return r

    def __rpow__(s, base):
        b = Sym.lift(base)
        if b is not None and b.c is not None and s.c is not None and s.c.denominator == 1:
            return Sym(b.c ** int(s.c))
        raise Unsupported("symbolic exponent")

    # comparisons give symbolic booleans
    def _cmp(s, o, f):
        if isinstance(o, np.ndarray) and o.shape != ():
            return _ew2(lambda a, b: a._cmp(b, f), s, o)
        o = Sym.lift(o)
        if o is None:
            return NotImplemented
        if s.c is not None and o.c is not None:
            return SymBool(z3.BoolVal(bool(f(s.c, o.c))), s.d | o.d)
        return SymBool(f(s.e, o.e), s.d | o.d)

    def __lt__(s, o): return s._cmp(o, lambda a, b: a < b)
    def __le__(s, o): return s._cmp(o, lambda a, b: a <= b)
    def __gt__(s, o): return s._cmp(o, lambda a, b: a > b)
    def __ge__(s, o): return s._cmp(o, lambda a, b: a >= b)
    def __eq__(s, o): return s._cmp(o, lambda a, b: a == b)
    def __ne__(s, o): return s._cmp(o, lambda a, b: a != b)
    __hash__ = None

    def __bool__(s):
        raise Unsupported("Python control flow on a traced value")

    def __float__(s):
        if s.c is not None:
            return float(s.c)
        raise Unsupported("float() of a traced value")

    def __repr__(s):
        return f"<{s.e}>"

    @property
    def shape(s): return ()
    @property
    def ndim(s): return 0
    @property
    def dtype(s): return np.dtype(float)
    def astype(s, *a, **k): return s


class SymBool:
    __slots__ = ("e", "d")
    __array_ufunc__ = None

    def __init__(self, e, d=_EMPTY):
        self.e = e if z3.is_expr(e) else z3.BoolVal(bool(e))
        self.d = d

    @staticmethod
    def lift(x):
        if isinstance(x, SymBool):
            return x
        if isinstance(x, (bool, np.bool_)):
            return SymBool(z3.BoolVal(bool(x)))
        if isinstance(x, np.ndarray) and x.shape == ():
            return SymBool.lift(x.item())
        if hasattr(x, "shape") and x.shape == () and hasattr(x, "dtype") and x.dtype == bool:
            return SymBool(z3.BoolVal(bool(x)))
        return None

    def __and__(s, o):
        o = SymBool.lift(o)
        return SymBool(z3.And(s.e, o.e), s.d | o.d)
    __rand__ = __and__

    def __or__(s, o):
        o = SymBool.lift(o)
        return SymBool(z3.Or(s.e, o.e), s.d | o.d)
    __ror__ = __or__

    def __invert__(s):
        return SymBool(z3.Not(s.e), s.d)

    def __bool__(s):
        if z3.is_true(s.e):
            return True
        if z3.is_false(s.e):
            return False
        raise Unsupported("Python control flow on a traced boolean")

    def __repr__(s):
        return f"<{s.e}>"


def _arith(a: Sym, b: Sym, op) -> Sym:
    d = a.d | b.d if (a.d or b.d) else _EMPTY
    ac, bc = a.c, b.c
    if op == "/":
        if bc is not None:
            if bc == 0:
                i = Ctx.new_def("div", z3.BoolVal(False), "division by the constant 0")
                return Sym(z3.FreshReal("undef"), d=d | {i})
            if ac is not None:
                return Sym(ac / bc, d=d)
            return Sym(a.e * rv(1 / bc), d=d) if bc != 1 else Sym(a.e, d=d)
        i = Ctx.new_def("div", b.e != 0, "denominator != 0")
        if ac is not None and ac == 0:
            return Sym(0, d=d | {i})
        return Sym(a.e / b.e, d=d | {i})
    if ac is not None and bc is not None:
        return Sym(ac + bc if op == "+" else ac - bc if op == "-" else ac * bc, d=d)
    if op == "+":
        if ac is not None and ac == 0: return Sym(b.e, b.c, d)
        if bc is not None and bc == 0: return Sym(a.e, a.c, d)
        return Sym(a.e + b.e, d=d)
    if op == "-":
        if bc is not None and bc == 0: return Sym(a.e, a.c, d)
        if ac is not None and ac == 0: return Sym(-b.e, d=d)
        return Sym(a.e - b.e, d=d)
    if op == "*":
        # NOTE: 0 * t is 0 only where t is defined; definedness ids are kept in d.
        if ac is not None:
            if ac == 0: return Sym(0, d=d)
            if ac == 1: return Sym(b.e, b.c, d)
        if bc is not None:
            if bc == 0: return Sym(0, d=d)
            if bc == 1: return Sym(a.e, a.c, d)
        return Sym(a.e * b.e, d=d)
    raise AssertionError(op)


def _short(e, n=80):
    s = str(e).replace("\n", " ")
    return s if len(s) <= n else s[: n - 3] + "..."


# ----------------------------------------------------------------------------------------------
# transcendental scalars
# ----------------------------------------------------------------------------------------------
def sexp(s, quiet=False):
    """exp; every evaluated argument is logged (overflow obligation: argument bounded above) unless the call comes from a
    primitive model that JAX implements in an overflow-safe way (nn.sigmoid, nn.softplus)"""
    s = Sym.lift(s)
    if s.c is not None and s.c == 0:
        return Sym(1, d=s.d)
    if not quiet and s.c is None:
        Ctx.exp_args.append(s.e)
    return Sym(E(s.e), d=s.d)


def slog(s):
    s = Sym.lift(s)
    if s.c is not None and s.c == 1:
        return Sym(0, d=s.d)
    i = Ctx.new_def("log", s.e > 0, "log argument > 0")
    return Sym(L(s.e), d=s.d | {i})


def stanh(s):
    s = Sym.lift(s)
    if s.c is not None and s.c == 0:
        return Sym(0, d=s.d)
    return Sym(TH(s.e), d=s.d)


def ssqrt(s):
    s = Sym.lift(s)
    if s.c is not None:
        r = math.isqrt(s.c.numerator), math.isqrt(s.c.denominator)
        if s.c >= 0 and r[0] ** 2 == s.c.numerator and r[1] ** 2 == s.c.denominator:
            return Sym(Fraction(r[0], r[1]), d=s.d)
    i = Ctx.new_def("sqrt", s.e >= 0, "sqrt argument >= 0")
    return Sym(SQ(s.e), d=s.d | {i})


def sabs(s):
    s = Sym.lift(s)
    if s.c is not None:
        return Sym(abs(s.c), d=s.d)
    return Sym(z3.If(s.e >= 0, s.e, -s.e), d=s.d)


def swhere(c, a, b):
    c = SymBool.lift(c) if not isinstance(c, SymBool) else c
    a, b = Sym.lift(a), Sym.lift(b)
    if z3.is_true(c.e):
        return Sym(a.e, a.c, a.d | c.d)
    if z3.is_false(c.e):
        return Sym(b.e, b.c, b.d | c.d)
    common = a.d & b.d
    oa, ob = a.d - common, b.d - common
    d = c.d | common
    if oa:
        i = Ctx.defs.__len__()
        Ctx.defs.append(("where", z3.Implies(c.e, z3.And(*[Ctx.defs[k][1] for k in sorted(oa)])), "selected branch defined"))
        d = d | {i}
    if ob:
        i = Ctx.defs.__len__()
        Ctx.defs.append(("where", z3.Implies(z3.Not(c.e), z3.And(*[Ctx.defs[k][1] for k in sorted(ob)])), "selected branch defined"))
        d = d | {i}
    if a.c is not None and b.c is not None and a.c == b.c:
        return Sym(a.c, d=d)
    t = z3.If(c.e, a.e, b.e)
    Ctx.guards.append((t, c.e))
    # a select whose condition is an EQUALITY between real terms picks its first branch on a null set only: autodiff then
    # differentiates that branch at points where the function around them is the other one (C05 obligation)
    ce = c.e
    if z3.is_eq(ce) and ce.arg(0).sort() == R:
        Ctx.null_selects.append((ce, a.e, b.e))
    elif (z3.is_not(ce) and z3.is_eq(ce.arg(0)) and ce.arg(0).arg(0).sort() == R):
        Ctx.null_selects.append((ce.arg(0), b.e, a.e))
    elif z3.is_distinct(ce) and ce.num_args() == 2 and ce.arg(0).sort() == R:
        Ctx.null_selects.append((ce.arg(0) == ce.arg(1), b.e, a.e))
    return Sym(t, d=d)


def smin(a, b):
    a, b = Sym.lift(a), Sym.lift(b)
    if a.c is not None and b.c is not None:
        return Sym(min(a.c, b.c), d=a.d | b.d)
    t = z3.If(a.e <= b.e, a.e, b.e)
    Ctx.clips.append((t, a.e <= b.e))
    return Sym(t, d=a.d | b.d)


def smax(a, b):
    a, b = Sym.lift(a), Sym.lift(b)
    if a.c is not None and b.c is not None:
        return Sym(max(a.c, b.c), d=a.d | b.d)
    return Sym(z3.If(a.e >= b.e, a.e, b.e), d=a.d | b.d)


# ----------------------------------------------------------------------------------------------
# arrays
# ----------------------------------------------------------------------------------------------
def _is_jax(x):
    return type(x).__module__.split(".")[0] in ("jax", "jaxlib")


def _concrete(x):
    """jax arrays -> numpy (structure stays concrete)."""
    if _is_jax(x):
        return np.asarray(x)
    return x


def _idx(idx):
    if isinstance(idx, tuple):
        return tuple(_idx(i) for i in idx)
    if _is_jax(idx):
        return np.asarray(idx)
    if isinstance(idx, list):
        return np.asarray(idx)
    if isinstance(idx, SymArray) or isinstance(idx, Sym):
        raise Unsupported("data-dependent index")
    return idx


class SymArray(np.ndarray):
    """Immutable n-d array of Sym (object ndarray underneath)."""

    __array_priority__ = 100

    def __new__(cls, a):
        if isinstance(a, SymArray):
            return a
        a = np.asarray(_concrete(a), dtype=object) if not isinstance(a, np.ndarray) else a
        out = np.empty(a.shape, dtype=object)
        flat = out.reshape(-1)
        for k, v in enumerate(a.reshape(-1)):
            flat[k] = _cell(v)
        return out.view(cls)

    def __array_finalize__(self, obj):
        pass

    @property
    def at(self):
        return _At(self)

    @property
    def T(self):
        return np.asarray(self).T.view(SymArray)

    def ravel(self, order="C"):
        return np.asarray(self).ravel(order=order).view(SymArray)

    def flatten(self, order="C"):
        return np.asarray(self).flatten(order=order).view(SymArray)

    def reshape(self, *shape, **k):
        return np.asarray(self).reshape(*shape, **k).view(SymArray)

    def astype(self, *a, **k):
        return self

    def copy(self, *a, **k):
        return np.array(np.asarray(self), dtype=object, copy=True).view(SymArray)

    def sum(self, axis=None, **k):
        return asum(self, axis=axis)

    def __getitem__(self, idx):
        idx = _idx(idx)
        _check_index(self.shape, idx, "gather")
        r = np.ndarray.__getitem__(self, idx)
        return r

    def __iter__(self):
        for i in range(len(self)):
            yield np.ndarray.__getitem__(self, i)

    def __setitem__(self, idx, v):
        raise Unsupported("in-place item assignment on a traced array (JAX arrays are immutable)")

    # JAX arrays are immutable: in-place operators rebind instead of mutating
    def __iadd__(self, o): return self + o
    def __isub__(self, o): return self - o
    def __imul__(self, o): return self * o
    def __itruediv__(self, o): return self / o

    def _bin(self, o, fn):
        return _ew2(fn, self, o)

    def __add__(s, o): return _ew2(lambda a, b: a + b, s, o)
    def __radd__(s, o): return _ew2(lambda a, b: b + a, s, o)
    def __sub__(s, o): return _ew2(lambda a, b: a - b, s, o)
    def __rsub__(s, o): return _ew2(lambda a, b: b - a, s, o)
    def __mul__(s, o): return _ew2(lambda a, b: a * b, s, o)
    def __rmul__(s, o): return _ew2(lambda a, b: b * a, s, o)
    def __truediv__(s, o): return _ew2(lambda a, b: a / b, s, o)
    def __rtruediv__(s, o): return _ew2(lambda a, b: b / a, s, o)
    def __pow__(s, k): return _ew1(lambda a: a ** k, s)
    def __neg__(s): return _ew1(lambda a: -a, s)
    def __lt__(s, o): return _ew2(lambda a, b: a < b, s, o, boolean=True)
    def __le__(s, o): return _ew2(lambda a, b: a <= b, s, o, boolean=True)
    def __gt__(s, o): return _ew2(lambda a, b: a > b, s, o, boolean=True)
    def __ge__(s, o): return _ew2(lambda a, b: a >= b, s, o, boolean=True)
    def __eq__(s, o): return _ew2(lambda a, b: a == b, s, o, boolean=True)
    def __ne__(s, o): return _ew2(lambda a, b: a != b, s, o, boolean=True)
    __hash__ = None


class BoolArray(np.ndarray):
    """object array of SymBool"""

    def __array_finalize__(self, obj):
        pass

    def __and__(s, o): return _ewb(lambda a, b: a & b, s, o)
    def __or__(s, o): return _ewb(lambda a, b: a | b, s, o)
    def __invert__(s):
        out = np.empty(s.shape, dtype=object)
        for ix in np.ndindex(s.shape):
            out[ix] = ~np.ndarray.__getitem__(s, ix)
        return out.view(BoolArray)


def _ewb(fn, a, b):
    a = np.asarray(a, dtype=object)
    b = np.asarray(_concrete(b), dtype=object)
    a, b = np.broadcast_arrays(a, b)
    out = np.empty(a.shape, dtype=object)
    for ix in np.ndindex(a.shape):
        x, y = a[ix], b[ix]
        x = x if isinstance(x, SymBool) else SymBool.lift(x)
        y = y if isinstance(y, SymBool) else SymBool.lift(y)
        out[ix] = fn(x, y)
    return out.view(BoolArray)


POISON_PREFIX = "NaN!"


def _cell(v):
    if isinstance(v, Sym):
        return v
    if isinstance(v, (float, np.floating)) and math.isnan(v):
        Ctx.poison += 1
        return Sym(z3.Real(f"{POISON_PREFIX}{Ctx.poison}"))
    s = Sym.lift(v)
    if s is None:
        raise Unsupported(f"cannot lift {type(v).__name__} into a symbolic array")
    return s


def arr(x):
    """anything array-like -> SymArray (or Sym for 0-d)"""
    if isinstance(x, SymArray):
        return x
    if isinstance(x, Sym):
        return x
    x = _concrete(x)
    if isinstance(x, (list, tuple)):
        x = _stack_list(x)
        if isinstance(x, SymArray):
            return x
    a = np.asarray(x)
    if a.dtype == object or a.dtype.kind in "fiub":
        if a.shape == ():
            return _cell(a.item())
        return SymArray(a)
    raise Unsupported(f"cannot convert dtype {a.dtype}")


def _stack_list(x):
    if any(isinstance(e, (Sym, SymArray)) for e in x):
        parts = [np.asarray(arr(e), dtype=object) if not isinstance(e, Sym) else _obj0(e) for e in x]
        return np.stack(parts).view(SymArray)
    if any(isinstance(e, (list, tuple)) for e in x):
        sub = [_stack_list(e) if isinstance(e, (list, tuple)) else e for e in x]
        if any(isinstance(e, SymArray) for e in sub):
            return np.stack([np.asarray(arr(e), dtype=object) for e in sub]).view(SymArray)
    return np.asarray([_concrete(e) for e in x]) if len(x) else np.asarray(x)


def _obj0(s):
    o = np.empty((), dtype=object)
    o[()] = s
    return o


def _ew1(fn, a):
    if isinstance(a, Sym):
        return fn(a)
    a = arr(a)
    if isinstance(a, Sym):
        return fn(a)
    out = np.empty(a.shape, dtype=object)
    flat = out.reshape(-1)
    for k, v in enumerate(np.asarray(a, dtype=object).reshape(-1)):
        flat[k] = fn(v)
    return out.view(SymArray)


def _ew2(fn, a, b, boolean=False):
    A = np.asarray(arr(a), dtype=object) if not isinstance(a, Sym) else _obj0(a)
    if isinstance(b, Sym):
        B = _obj0(b)
    elif isinstance(b, SymBool):
        B = _obj0(b)
    else:
        bb = _concrete(b)
        if isinstance(bb, (list, tuple)):
            bb = arr(bb)
        B = np.asarray(bb, dtype=object)
    try:
        A, B = np.broadcast_arrays(A, B)
    except ValueError as e:
        raise Unsupported(f"broadcast: {e}")
    out = np.empty(A.shape, dtype=object)
    if A.shape == ():
        r = fn(A[()] if isinstance(A[()], Sym) else Sym.lift(A[()]), B[()])
        return r
    flat = out.reshape(-1)
    for k, (x, y) in enumerate(zip(A.reshape(-1), B.reshape(-1))):
        if not isinstance(x, Sym):
            x = Sym.lift(x)
        r = fn(x, y)
        if r is NotImplemented:
            raise Unsupported(f"operand {type(y).__name__}")
        flat[k] = r
    return out.view(BoolArray if boolean else SymArray)


def _check_index(shape, idx, what):
    """JAX clamps out-of-bounds gathers and drops out-of-bounds scatters silently; relying on that is
    reported as an index obligation failure.  Negative indices wrap (as in JAX and numpy)."""
    idxs = idx if isinstance(idx, tuple) else (idx,)
    dim = 0
    for ix in idxs:
        if ix is None or ix is Ellipsis:
            if ix is Ellipsis:
                dim = len(shape) - (len([i for i in idxs if i is not None and i is not Ellipsis]) - dim)
            continue
        if dim >= len(shape):
            Ctx.index_obl.append((f"{what}: too many indices for shape {shape}", False))
            raise Unsupported(f"{what}: too many indices for shape {shape}")
        n = shape[dim]
        if isinstance(ix, (int, np.integer)):
            ok = -n <= int(ix) < n
            Ctx.index_obl.append((f"{what}: index {int(ix)} within axis of length {n}", ok))
            if not ok:
                raise IndexOutOfBounds(f"{what}: index {int(ix)} out of bounds for axis of length {n}")
        elif isinstance(ix, np.ndarray):
            if ix.dtype == bool:
                dim += ix.ndim
                continue
            if ix.size:
                lo, hi = int(ix.min()), int(ix.max())
                ok = -n <= lo and hi < n
                Ctx.index_obl.append((f"{what}: indices in [{lo},{hi}] within axis of length {n}", ok))
                if not ok:
                    raise IndexOutOfBounds(f"{what}: indices in [{lo},{hi}] out of bounds for axis of length {n}")
        dim += 1


class IndexOutOfBounds(Exception):
    pass


class _At:
    def __init__(self, a):
        self.a = a

    def __getitem__(self, idx):
        return _AtIdx(self.a, _idx(idx))


class _AtIdx:
    def __init__(self, a, idx):
        self.a, self.idx = a, idx

    def _flat(self):
        _check_index(self.a.shape, self.idx, "scatter")
        return np.arange(self.a.size).reshape(self.a.shape)[self.idx]

    def _vals(self, v, shape):
        if isinstance(v, Sym):
            v = _obj0(v)
        else:
            v = np.asarray(arr(v), dtype=object) if not isinstance(arr(v), Sym) else _obj0(arr(v))
        return np.broadcast_to(v, shape)

    def _hints(self, k, fi):
        """`unique_indices=True` / `indices_are_sorted=True` are promises to XLA; a false promise gives undefined values
        and wrong gradients, so each is an obligation"""
        flat = np.asarray(fi).reshape(-1)
        if k.get("unique_indices"):
            ok = len(set(flat.tolist())) == len(flat)
            Ctx.index_obl.append((f"scatter: unique_indices=True promised for indices {flat.tolist()[:12]}", ok))
            Ctx.hint_obl.append(("unique_indices", ok, flat.tolist()[:24]))
        if k.get("indices_are_sorted"):
            ok = bool(np.all(np.diff(flat) >= 0))
            Ctx.index_obl.append((f"scatter: indices_are_sorted=True promised for indices {flat.tolist()[:12]}", ok))
            Ctx.hint_obl.append(("indices_are_sorted", ok, flat.tolist()[:24]))

    def set(self, v, **k):
        c = np.array(np.asarray(self.a), dtype=object, copy=True)
        fi = self._flat()
        self._hints(k, fi)
        v = self._vals(v, np.shape(fi))
        cf = c.reshape(-1)
        for i, val in zip(np.asarray(fi).reshape(-1), v.reshape(-1)):
            cf[i] = val
        return cf.reshape(c.shape).view(SymArray)

    def add(self, v, **k):
        c = np.array(np.asarray(self.a), dtype=object, copy=True)
        fi = self._flat()
        self._hints(k, fi)
        v = self._vals(v, np.shape(fi))
        cf = c.reshape(-1)
        for i, val in zip(np.asarray(fi).reshape(-1), v.reshape(-1)):
            cf[i] = cf[i] + val
        return cf.reshape(c.shape).view(SymArray)

    def get(self, **k):
        return self.a[self.idx]


# ----------------------------------------------------------------------------------------------
# primitive models (the assumed contracts on jax.numpy / lax / vmap)
# ----------------------------------------------------------------------------------------------
import jax as _real_jax
import jax.numpy as _real_jnp

_MODELS = {}


def model(real, name=None):
    """Register a primitive model; every call is first bound against the installed signature (API
    conformance obligation)."""
    def deco(fn):
        nm = name or getattr(real, "__name__", str(real))
        try:
            sig = inspect.signature(real)
        except (TypeError, ValueError):
            sig = None

        def wrapped(*a, **k):
            if sig is not None:
                try:
                    sig.bind(*a, **k)
                except TypeError as e:
                    raise ApiMismatch(f"{nm}{_argdesc(a, k)}: {e}")
            Ctx.api_calls[nm] = Ctx.api_calls.get(nm, 0) + 1
            return fn(*a, **k)
        wrapped.__name__ = nm
        wrapped.__wrapped_model__ = fn
        wrapped.__real__ = real
        _MODELS[nm] = wrapped
        return wrapped
    return deco


def _argdesc(a, k):
    return "(" + ", ".join([type(x).__name__ for x in a] + [f"{n}=" for n in k]) + ")"


def _anysym(*xs):
    for x in xs:
        if isinstance(x, (Sym, SymArray, SymBool, BoolArray)):
            return True
        if isinstance(x, (list, tuple)) and _anysym(*x):
            return True
        if isinstance(x, np.ndarray) and x.dtype == object:
            return True
    return False


@model(_real_jnp.zeros)
def zeros(shape, dtype=None, **k):
    if dtype is not None and np.dtype(dtype).kind in "iub":
        return np.zeros(shape, dtype=dtype)
    return SymArray(np.zeros(shape))


@model(_real_jnp.ones)
def ones(shape, dtype=None, **k):
    if dtype is not None and np.dtype(dtype).kind in "iub":
        return np.ones(shape, dtype=dtype)
    return SymArray(np.ones(shape))


@model(_real_jnp.zeros_like)
def zeros_like(a, dtype=None, **k):
    if not _anysym(a) and np.asarray(_concrete(a)).dtype.kind in "iub":
        return np.zeros_like(np.asarray(_concrete(a)))
    return SymArray(np.zeros(np.shape(a)))


@model(_real_jnp.ones_like)
def ones_like(a, dtype=None, **k):
    if not _anysym(a) and np.asarray(_concrete(a)).dtype.kind in "iub":
        return np.ones_like(np.asarray(_concrete(a)))
    return SymArray(np.ones(np.shape(a)))


@model(_real_jnp.asarray)
def asarray(a, dtype=None, **k):
    if isinstance(a, (SymArray, Sym, BoolArray)):
        return a
    a = _concrete(a)
    if isinstance(a, (list, tuple)):
        a = _stack_list(a)
        if isinstance(a, SymArray):
            return a
    x = np.asarray(a)
    if x.dtype.kind in "biu":
        return x
    if x.dtype.kind in "fO":
        return arr(x)
    if x.dtype.kind in "US":
        return x
    raise Unsupported(f"asarray of dtype {x.dtype}")


@model(_real_jnp.array)
def array(a, dtype=None, **k):
    return asarray.__wrapped_model__(a, dtype)


@model(_real_jnp.arange)
def arange(*a, **k):
    return np.arange(*a, **k)


@model(_real_jnp.concatenate)
def concatenate(arrays, axis=0, **k):
    if not _anysym(*arrays) and all(np.asarray(_concrete(x)).dtype.kind in "iub" for x in arrays):
        return np.concatenate([np.asarray(_concrete(x)) for x in arrays], axis=axis)
    parts = []
    for x in arrays:
        x = arr(x)
        parts.append(np.asarray(x, dtype=object) if not isinstance(x, Sym) else _obj0(x))
    return np.concatenate(parts, axis=axis).view(SymArray)


@model(_real_jnp.hstack)
def hstack(tup, **k):
    parts = [np.atleast_1d(np.asarray(arr(x), dtype=object)) for x in tup]
    return np.hstack(parts).view(SymArray)


@model(_real_jnp.stack)
def stack(arrays, axis=0, **k):
    if not _anysym(*arrays) and all(np.asarray(_concrete(x)).dtype.kind in "iub" for x in arrays):
        return np.stack([np.asarray(_concrete(x)) for x in arrays], axis=axis)
    parts = []
    for x in arrays:
        x = arr(x)
        parts.append(np.asarray(x, dtype=object) if not isinstance(x, Sym) else _obj0(x))
    return np.stack(parts, axis=axis).view(SymArray)


@model(_real_jnp.reshape)
def reshape(a, shape=None, *rest, **k):
    if not _anysym(a):
        return np.reshape(np.asarray(_concrete(a)), shape)
    return np.reshape(np.asarray(arr(a), dtype=object), shape).view(SymArray)


@model(_real_jnp.flip)
def flip(m, axis=None):
    if not _anysym(m):
        return np.flip(np.asarray(_concrete(m)), axis)
    return np.flip(np.asarray(arr(m), dtype=object), axis).view(SymArray)


@model(_real_jnp.expand_dims)
def expand_dims(a, axis):
    if not _anysym(a):
        return np.expand_dims(np.asarray(_concrete(a)), axis)
    x = arr(a)
    x = _obj0(x) if isinstance(x, Sym) else np.asarray(x, dtype=object)
    return np.expand_dims(x, axis).view(SymArray)


@model(_real_jnp.atleast_1d)
def atleast_1d(*arys):
    assert len(arys) == 1
    a = arys[0]
    if not _anysym(a):
        return np.atleast_1d(np.asarray(_concrete(a)))
    x = arr(a)
    x = _obj0(x) if isinstance(x, Sym) else np.asarray(x, dtype=object)
    return np.atleast_1d(x).view(SymArray)


@model(_real_jnp.squeeze)
def squeeze(a, axis=None):
    if not _anysym(a):
        return np.squeeze(np.asarray(_concrete(a)), axis)
    r = np.squeeze(np.asarray(arr(a), dtype=object), axis)
    return r.view(SymArray) if r.shape != () else r.item()


@model(_real_jnp.exp)
def exp(x):
    return _ew1(sexp, x)


@model(_real_jnp.log)
def log(x):
    return _ew1(slog, x)


@model(_real_jnp.log1p)
def log1p(x):
    return _ew1(lambda s: slog(Sym(1) + s), x)


@model(_real_jnp.expm1)
def expm1(x):
    return _ew1(lambda s: sexp(s) - Sym(1), x)


@model(_real_jax.nn.sigmoid, "nn.sigmoid")
def nn_sigmoid(x):
    return _ew1(lambda s: Sym(1) / (Sym(1) + sexp(-Sym.lift(s), quiet=True)), x)


@model(_real_jax.nn.softplus, "nn.softplus")
def nn_softplus(x):
    return _ew1(lambda s: slog(Sym(1) + sexp(s, quiet=True)), x)


@model(_real_jnp.tanh)
def tanh(x):
    return _ew1(stanh, x)


@model(_real_jnp.sqrt)
def sqrt(x):
    return _ew1(ssqrt, x)


@model(_real_jnp.abs)
def abs_(x):
    return _ew1(sabs, x)


@model(_real_jnp.clip)
def clip(arr=None, min=None, max=None):
    def f(s):
        if max is not None:
            s = smin(s, max)
        if min is not None:
            s = smax(s, min)
        return s
    if isinstance(min, (SymArray, np.ndarray)) or isinstance(max, (SymArray, np.ndarray)):
        raise Unsupported("clip with array bounds")
    return _ew1(f, arr)


@model(_real_jnp.minimum)
def minimum(x, y):
    return _ew2(lambda a, b: smin(a, b), x, y)


@model(_real_jnp.maximum)
def maximum(x, y):
    return _ew2(lambda a, b: smax(a, b), x, y)


@model(_real_jnp.where)
def where(condition, x=None, y=None, **k):
    if x is None or y is None:
        raise Unsupported("one-argument where")
    c = _concrete(condition)
    if isinstance(c, SymBool):
        c = _obj0(c)
    c = np.asarray(c, dtype=object)
    X = arr(x)
    Y = arr(y)
    X = _obj0(X) if isinstance(X, Sym) else np.asarray(X, dtype=object)
    Y = _obj0(Y) if isinstance(Y, Sym) else np.asarray(Y, dtype=object)
    c, X, Y = np.broadcast_arrays(c, X, Y)
    out = np.empty(c.shape, dtype=object)
    for ix in np.ndindex(c.shape):
        cc = c[ix]
        cc = cc if isinstance(cc, SymBool) else SymBool.lift(cc)
        if cc is None:
            raise Unsupported("where condition is not boolean")
        out[ix] = swhere(cc, X[ix], Y[ix])
    return out.view(SymArray) if out.shape != () else out[()]


def asum(a, axis=None, **k):
    a = arr(a)
    if isinstance(a, Sym):
        return a
    x = np.asarray(a, dtype=object)
    if axis is None:
        r = Sym(0)
        for v in x.reshape(-1):
            r = r + v
        return r
    x = np.moveaxis(x, axis, 0)
    out = np.empty(x.shape[1:], dtype=object)
    for ix in np.ndindex(out.shape):
        r = Sym(0)
        for j in range(x.shape[0]):
            r = r + x[(j,) + ix]
        out[ix] = r
    return out.view(SymArray) if out.shape != () else out[()]


@model(_real_jnp.sum)
def sum_(a, axis=None, **k):
    if not _anysym(a):
        return np.sum(np.asarray(_concrete(a)), axis=axis)
    return asum(a, axis)


@model(_real_jnp.cumsum)
def cumsum(a, axis=None, **k):
    if not _anysym(a):
        return np.cumsum(np.asarray(_concrete(a)), axis=axis)
    x = np.asarray(arr(a), dtype=object)
    assert x.ndim == 1
    out, r = [], Sym(0)
    for v in x:
        r = r + v
        out.append(r)
    return SymArray(np.asarray(out, dtype=object))


@model(_real_jnp.mean)
def mean(a, axis=None, **k):
    n = np.shape(a)[axis] if axis is not None else int(np.prod(np.shape(a)))
    return asum(a, axis) / n


@model(_real_jnp.isnan)
def isnan(x):
    if not _anysym(x):
        return np.isnan(np.asarray(_concrete(x)))
    return np.zeros(np.shape(x), dtype=bool)


@model(_real_jnp.all)
def all_(a, **k):
    return np.all(np.asarray(_concrete(a)), **k)


@model(_real_jnp.any)
def any_(a, **k):
    return np.any(np.asarray(_concrete(a)), **k)


@model(_real_jnp.allclose)
def allclose(a, b, **k):
    if _anysym(a, b):
        raise Unsupported("allclose on traced values")
    return np.allclose(np.asarray(_concrete(a)), np.asarray(_concrete(b)), **k)


@model(_real_jnp.unique)
def unique(a, **k):
    return np.unique(np.asarray(_concrete(a)), **k)


@model(_real_jnp.linspace)
def linspace(*a, **k):
    return np.linspace(*a, **k)


@model(_real_jnp.isin)
def isin(a, b, **k):
    return np.isin(np.asarray(_concrete(a)), np.asarray(_concrete(b)), **k)


@model(_real_jnp.logical_and)
def logical_and(a, b):
    return np.logical_and(_concrete(a), _concrete(b))


@model(_real_jnp.invert)
def invert(a):
    return np.invert(_concrete(a))


@model(_real_jnp.prod)
def prod(a, **k):
    return np.prod(np.asarray(_concrete(a)), **k)


@model(_real_jnp.max)
def max_(a, **k):
    if _anysym(a):
        raise Unsupported("max of traced values")
    return np.max(np.asarray(_concrete(a)), **k)


@model(_real_jnp.min)
def min_(a, **k):
    if _anysym(a):
        raise Unsupported("min of traced values")
    return np.min(np.asarray(_concrete(a)), **k)


@model(_real_jnp.diff)
def diff(a, **k):
    return np.diff(np.asarray(_concrete(a)), **k)


@model(_real_jnp.argsort)
def argsort(a, **k):
    return np.argsort(np.asarray(_concrete(a)), kind="stable")


@model(_real_jnp.isscalar)
def isscalar(x):
    return isinstance(x, Sym) or np.isscalar(x)


@model(_real_jnp.ndim)
def ndim(x):
    return np.ndim(x)


@model(_real_jnp.shape)
def shape(x):
    return np.shape(x)


@model(_real_jnp.tile)
def tile(a, reps):
    if not _anysym(a):
        return np.tile(np.asarray(_concrete(a)), reps)
    return np.tile(np.asarray(arr(a), dtype=object), reps).view(SymArray)


@model(_real_jnp.repeat)
def repeat(a, repeats, axis=None, **k):
    if not _anysym(a):
        return np.repeat(np.asarray(_concrete(a)), repeats, axis=axis)
    return np.repeat(np.asarray(arr(a), dtype=object), repeats, axis=axis).view(SymArray)


@model(_real_jnp.take)
def take(a, indices, axis=None, **k):
    return arr(a)[_idx(indices)] if axis in (None, 0) else (_ for _ in ()).throw(Unsupported("take axis"))


def _tree_axis(x, ax, i):
    if ax is None:
        return x
    if isinstance(x, dict):
        return {k: _tree_axis(v, ax if not isinstance(ax, dict) else ax[k], i) for k, v in x.items()}
    if isinstance(x, (list, tuple)) and not isinstance(x, SymArray):
        return type(x)(_tree_axis(v, ax if not isinstance(ax, (list, tuple)) else ax[j], i) for j, v in enumerate(x))
    if ax != 0:
        x = np.moveaxis(np.asarray(arr(x), dtype=object), ax, 0).view(SymArray)
    return x[i]


def _tree_len(x, ax):
    if ax is None:
        return None
    if isinstance(x, dict):
        for k, v in x.items():
            n = _tree_len(v, ax if not isinstance(ax, dict) else ax[k])
            if n is not None:
                return n
        return None
    if isinstance(x, (list, tuple)) and not isinstance(x, SymArray):
        for j, v in enumerate(x):
            n = _tree_len(v, ax if not isinstance(ax, (list, tuple)) else ax[j])
            if n is not None:
                return n
        return None
    return np.shape(x)[ax]


def _tree_stack(outs):
    o0 = outs[0]
    if isinstance(o0, dict):
        return {k: _tree_stack([o[k] for o in outs]) for k in o0}
    if isinstance(o0, (tuple, list)) and not isinstance(o0, SymArray):
        return type(o0)(_tree_stack([o[j] for o in outs]) for j in range(len(o0)))
    return stack.__wrapped_model__(outs)


@model(_real_jax.vmap, "vmap")
def vmap(fun, in_axes=0, out_axes=0, **k):
    if out_axes != 0:
        raise Unsupported("vmap out_axes != 0")

    def run(*args, **kwargs):
        if kwargs:
            raise Unsupported("vmap keyword arguments")
        axes = in_axes if isinstance(in_axes, (tuple, list)) else (in_axes,) * len(args)
        n = None
        for a, ax in zip(args, axes):
            n = _tree_len(a, ax)
            if n is not None:
                break
        if n is None:
            raise Unsupported("vmap without a mapped axis")
        for a, ax in zip(args, axes):
            m = _tree_len(a, ax)
            if m is not None and m != n:
                raise Unsupported(f"vmap axis sizes differ: {m} vs {n}")
        if n == 0:
            raise Unsupported("vmap over an empty axis")
        outs = [fun(*[_tree_axis(a, ax, i) for a, ax in zip(args, axes)]) for i in range(n)]
        return _tree_stack(outs)
    return run


@model(_real_jax.lax.fori_loop, "fori_loop")
def fori_loop(lower, upper, body_fun, init_val, **k):
    val = init_val
    for i in range(int(lower), int(upper)):
        val = body_fun(i, val)
    return val


class ScatterDimensionNumbers:
    def __init__(self, **k):
        self.k = k


def scatter_add(operand, scatter_indices, updates, dimension_numbers, **kw):
    inspect.signature(_real_jax.lax.scatter_add).bind(operand, scatter_indices, updates, dimension_numbers, **kw)
    Ctx.api_calls["scatter_add"] = Ctx.api_calls.get("scatter_add", 0) + 1
    if dimension_numbers.k != dict(update_window_dims=(), inserted_window_dims=(0,), scatter_dims_to_operand_dims=(0,)):
        raise Unsupported("scatter_add dimension numbers other than the 1-d pattern")
    idx = np.asarray(_concrete(scatter_indices))
    return arr(operand).at[idx[:, 0]].add(updates)


def scatter(operand, scatter_indices, updates, dimension_numbers, **kw):
    """lax.scatter (overwrite): with repeated indices the LAST update wins (what XLA:CPU does; jax documents the result as
    implementation-defined - a contract that needs accumulation is refuted by any of the possible results)"""
    inspect.signature(_real_jax.lax.scatter).bind(operand, scatter_indices, updates, dimension_numbers, **kw)
    Ctx.api_calls["scatter"] = Ctx.api_calls.get("scatter", 0) + 1
    if dimension_numbers.k != dict(update_window_dims=(), inserted_window_dims=(0,), scatter_dims_to_operand_dims=(0,)):
        raise Unsupported("scatter dimension numbers other than the 1-d pattern")
    idx = np.asarray(_concrete(scatter_indices))
    out = arr(operand)
    upd = arr(updates)
    for k, i in enumerate(idx[:, 0]):
        out = out.at[int(i)].set(upd[k])
    return out


def tree_map(f, tree, *rest, **k):
    if isinstance(tree, dict):
        return {key: tree_map(f, tree[key], *[r[key] for r in rest]) for key in tree}
    if isinstance(tree, (list, tuple)) and not isinstance(tree, SymArray):
        return type(tree)(tree_map(f, tree[i], *[r[i] for r in rest]) for i in range(len(tree)))
    if tree is None:
        return None
    return f(tree, *rest)


def _checkpoint(f, **k):
    return f


def lax_scan(f, init, xs=None, length=None, **k):
    carry = init
    outs = []
    if xs is None:
        n = length
    else:
        n = _tree_len(xs, 0) if length is None else length
    for i in range(int(n)):
        xi = _tree_axis(xs, 0, i) if xs is not None else None
        # lax.scan hands f a pytree REBUILT from the leaves (tracers): in-place updates of the containers inside f never reach the
        # caller's `init` - modelled by copying the containers
        carry, o = f(tree_map(lambda leaf: leaf, carry), xi)
        outs.append(o)
    return carry, (_tree_stack(outs) if outs else None)


class _NS(types.SimpleNamespace):
    def __getattr__(self, name):
        raise Unsupported(f"primitive {self._nsname}.{name} has no model")


def _ns(nsname, **k):
    n = _NS(**k)
    object.__setattr__(n, "_nsname", nsname)
    return n


jnp = _ns(
    "jnp",
    zeros=zeros, ones=ones, zeros_like=zeros_like, ones_like=ones_like, asarray=asarray, array=array,
    arange=arange, concatenate=concatenate, hstack=hstack, stack=stack, reshape=reshape, flip=flip,
    expand_dims=expand_dims, atleast_1d=atleast_1d, squeeze=squeeze, exp=exp, log=log, log1p=log1p, tanh=tanh,
    sqrt=sqrt, abs=abs_, clip=clip, expm1=expm1, minimum=minimum, maximum=maximum, where=where, sum=sum_, cumsum=cumsum,
    mean=mean, isnan=isnan, all=all_, any=any_, allclose=allclose, unique=unique, linspace=linspace, isin=isin,
    logical_and=logical_and, invert=invert, prod=prod, max=max_, min=min_, diff=diff, argsort=argsort,
    isscalar=isscalar, ndim=ndim, shape=shape, tile=tile, repeat=repeat, take=take,
    ndarray=object, pi=Fraction(314159265358979323846, 10**20), inf=float("inf"), nan=float("nan"),
    float64=np.float64, float32=np.float32, int32=np.int32, int64=np.int64, bool_=np.bool_,
)
lax = _ns("lax", fori_loop=fori_loop, scatter_add=scatter_add, scatter=scatter, ScatterDimensionNumbers=ScatterDimensionNumbers,
          scan=lax_scan)
tree_util = _ns("tree_util", tree_map=tree_map)
nn = _ns("jax.nn", sigmoid=nn_sigmoid, softplus=nn_softplus)
jax = _ns("jax", numpy=jnp, lax=lax, vmap=vmap, checkpoint=_checkpoint, tree_util=tree_util, nn=nn,
          Array=object)

DEFAULT_OVERRIDES = {
    "pi": Sym(z3.Real("PI")),        # math.pi is treated as the real number pi
    "jnp": jnp, "jax": jax, "lax": lax, "vmap": vmap, "scatter_add": scatter_add, "scatter": scatter,
    "ScatterDimensionNumbers": ScatterDimensionNumbers, "fori_loop": fori_loop,
}

PRIMITIVE_MODELS = sorted(list(_MODELS) + ["scatter_add", "scatter", "tree_map", "checkpoint(identity)", "lax.scan"])


# ----------------------------------------------------------------------------------------------
# re-globalisation of real functions
# ----------------------------------------------------------------------------------------------
def _has(c):
    try:
        c.cell_contents
        return True
    except ValueError:
        return False


def primal_of(obj):
    """jax.custom_jvp / jax.custom_vjp object -> its primal function (the forward semantics), else None.  Whether the attached
    derivative rule is the derivative of that primal is a separate obligation (C05)."""
    if type(obj).__name__ in ("custom_jvp", "custom_vjp") and inspect.isfunction(getattr(obj, "fun", None)):
        return obj.fun
    return None


def unwrap(fn):
    """Strip decorators that only guard the call (`only_allow_module`, `deprecated_kwargs`): they wrap the
    real function in a closure called `wrapper`."""
    fn = primal_of(fn) or fn
    seen = 0
    while inspect.isfunction(fn) and fn.__name__ == "wrapper" and fn.__closure__ and seen < 5:
        inner = [c.cell_contents for c in fn.__closure__ if _has(c) and inspect.isfunction(c.cell_contents)]
        if not inner:
            break
        fn = inner[0]
        seen += 1
    if hasattr(fn, "__wrapped__") and inspect.isfunction(fn.__wrapped__):
        fn = fn.__wrapped__
    return fn


class Runtime:
    """Re-globalises real functions lazily.

    overrides      : global *names* replaced in every re-globalised function (jnp, jax, vmap, ...)
    stubs          : {id(real function object): replacement}  contract stubs, matched by identity
    """

    PKGS = ("jaxley", "tridiax")

    def __init__(self, overrides=None, stubs=None):
        self.overrides = dict(DEFAULT_OVERRIDES)
        if overrides:
            self.overrides.update(overrides)
        self.stubs = {}
        self._cache = {}
        self._gcache = {}
        self.reached = {}          # qualified name -> number of calls of re-globalised code
        for fn, rep in (stubs or {}).items():
            self.stub(fn, rep)

    def stub(self, real_fn, replacement):
        self.stubs[id(unwrap(real_fn))] = replacement
        self.stubs[id(real_fn)] = replacement

    def _globals_for(self, fn):
        key = id(fn.__globals__)
        g = self._gcache.get(key)
        if g is None:
            g = dict(fn.__globals__)
            for name, val in list(g.items()):
                if id(val) in self.stubs:
                    g[name] = self.stubs[id(val)]
                elif name in self.overrides:
                    g[name] = self.overrides[name]
                elif inspect.isfunction(val) and (val.__module__ or "").split(".")[0] in self.PKGS:
                    g[name] = _Lazy(val, self)
                elif primal_of(val) is not None and (primal_of(val).__module__ or "").split(".")[0] in self.PKGS:
                    g[name] = _Lazy(primal_of(val), self)
            g["super"] = sym_super        # builtin: zero-argument super() must find re-globalised methods
            self._gcache[key] = g
        return g

    def reglob(self, fn):
        fn = unwrap(fn)
        if id(fn) in self.stubs:
            return self.stubs[id(fn)]
        key = id(fn.__code__)
        if key in self._cache:
            return self._cache[key]
        g = self._globals_for(fn)
        new = types.FunctionType(fn.__code__, g, fn.__name__, fn.__defaults__, fn.__closure__)
        new.__kwdefaults__ = fn.__kwdefaults__
        new.__qualname__ = fn.__qualname__
        new.__module__ = fn.__module__
        qn = f"{fn.__module__}.{fn.__qualname__}"
        rt = self

        def counted(*a, **k):
            rt.reached[qn] = rt.reached.get(qn, 0) + 1
            return new(*a, **k)
        counted.__name__ = fn.__name__
        counted.__qualname__ = fn.__qualname__
        counted.__real_code__ = fn.__code__
        counted.__reglob__ = new
        self._cache[key] = counted
        return counted


class _Lazy:
    def __init__(self, fn, rt):
        self.fn, self.rt = fn, rt

    def __call__(self, *a, **k):
        return self.rt.reglob(self.fn)(*a, **k)

    def __getattr__(self, n):
        return getattr(self.fn, n)


class Proxy:
    """Object proxy: methods defined in jaxley are re-globalised and bound to the proxy; data attributes
    come from the real object; attribute *writes* go to an overlay and are logged (frame log)."""

    def __init__(self, real, rt, extra=None, wrap_children=True):
        object.__setattr__(self, "_real", real)
        object.__setattr__(self, "_rt", rt)
        object.__setattr__(self, "_extra", dict(extra or {}))
        object.__setattr__(self, "_writes", [])
        object.__setattr__(self, "_wrap_children", wrap_children)

    def __getattr__(self, name):
        real, rt = self._real, self._rt
        extra = object.__getattribute__(self, "_extra")
        if name in extra:
            return extra[name]
        st = inspect.getattr_static(type(real), name, None)
        if isinstance(st, staticmethod):
            return rt.reglob(st.__func__)
        if isinstance(st, classmethod):
            return types.MethodType(rt.reglob(st.__func__), type(real))
        if inspect.isfunction(st):
            if (unwrap(st).__module__ or "").split(".")[0] in rt.PKGS:
                return types.MethodType(rt.reglob(st), self)
            return types.MethodType(st, self)
        if isinstance(st, property):
            f = st.fget
            if (f.__module__ or "").split(".")[0] in rt.PKGS:
                return rt.reglob(f)(self)
            return f(self)
        val = getattr(real, name)
        if name in ("channels", "synapses") and self._wrap_children:
            return [Proxy(c, rt) if c is not None else None for c in val]
        if name == "base":
            return self
        return self._reglob_value(val, 0)

    def _reglob_value(self, val, depth):
        """functions / bound methods of the packages under verification that are stored as DATA (a table of rate functions, a
        callback kept in an attribute) are re-globalised like methods are, also inside dicts / lists / tuples"""
        real, rt = self._real, self._rt
        if inspect.isfunction(val) and (unwrap(val).__module__ or "").split(".")[0] in rt.PKGS:
            return rt.reglob(val)
        if inspect.ismethod(val) and inspect.isfunction(val.__func__) and (unwrap(val.__func__).__module__ or "").split(".")[0] in rt.PKGS:
            return types.MethodType(rt.reglob(val.__func__), self if val.__self__ is real else val.__self__)
        if depth < 2:
            if type(val) is dict and any(callable(v) for v in val.values()):
                return {k: self._reglob_value(v, depth + 1) for k, v in val.items()}
            if type(val) in (list, tuple) and any(callable(v) for v in val):
                return type(val)(self._reglob_value(v, depth + 1) for v in val)
        return val

    def __setattr__(self, name, v):
        self._writes.append(name)
        self._extra[name] = v

    def __repr__(self):
        return f"Proxy({type(self._real).__name__})"


class _SuperProxy:
    def __init__(self, cls, obj):
        object.__setattr__(self, "_cls", cls)
        object.__setattr__(self, "_obj", obj)

    def __getattr__(self, name):
        cls, obj = self._cls, self._obj
        real = real_of(obj)
        mro = type(real).__mro__
        start = mro.index(cls) + 1 if cls in mro else 0
        for k in mro[start:]:
            if name in k.__dict__:
                st = k.__dict__[name]
                if isinstance(st, staticmethod):
                    return obj._rt.reglob(st.__func__) if isinstance(obj, Proxy) else st.__func__
                if inspect.isfunction(st):
                    if isinstance(obj, Proxy) and (unwrap(st).__module__ or "").split(".")[0] in obj._rt.PKGS:
                        return types.MethodType(obj._rt.reglob(st), obj)
                    return types.MethodType(st, obj)
                if isinstance(st, property):
                    return st.fget(obj)
                return st
        raise AttributeError(name)


def sym_super(*args):
    """replacement for the builtin `super` inside re-globalised code: zero-argument form resolved from the
    caller's frame (`__class__` cell and first positional argument), methods found are re-globalised too."""
    import sys as _sys
    if args:
        cls, obj = args
        return _SuperProxy(cls, obj)
    fr = _sys._getframe(1)
    cls = fr.f_locals.get("__class__")
    first = fr.f_code.co_varnames[0] if fr.f_code.co_argcount else None
    obj = fr.f_locals.get(first)
    if cls is None or obj is None:
        raise Unsupported("super() outside a method")
    return _SuperProxy(cls, obj)


def real_of(obj):
    return object.__getattribute__(obj, "_real") if isinstance(obj, Proxy) else obj


# ----------------------------------------------------------------------------------------------
# evaluation of z3 terms (for counter-models, witness search, replay)
# ----------------------------------------------------------------------------------------------
def zeval(e, env, mp=None, memo=None):
    """Evaluate a z3 real/bool term with python numbers.  env: {name: value}.  mp: mpmath module (50 digits)
    or None for float64.  Unknown variables evaluate to 0."""
    if memo is None:
        memo = {}
    return _zeval(e, env, mp, memo)


def _zeval(e, env, mp, memo):
    k = e.get_id()
    if k in memo:
        return memo[k]
    r = _zeval1(e, env, mp, memo)
    memo[k] = r
    return r


def _num(fr, mp):
    if mp is None:
        return float(fr)
    return mp.mpf(fr.numerator) / mp.mpf(fr.denominator)


def _zeval1(e, env, mp, memo):
    if z3.is_rational_value(e) or z3.is_int_value(e):
        return _num(e.as_fraction(), mp)
    if z3.is_algebraic_value(e):
        return _num(e.approx(30).as_fraction(), mp)
    if z3.is_true(e):
        return True
    if z3.is_false(e):
        return False
    dk = e.decl().kind()
    ch = e.children()
    if dk == z3.Z3_OP_UNINTERPRETED:
        nm = e.decl().name()
        if not ch:
            v = env.get(nm, 0)
            if isinstance(v, Fraction):
                return _num(v, mp)
            if isinstance(v, bool):
                return v
            return (mp.mpf(v) if mp is not None else float(v))
        a = _zeval(ch[0], env, mp, memo)
        m = mp if mp is not None else math
        try:
            if nm == "EXP":
                return m.exp(a)
            if nm == "LOG":
                return m.log(a) if a > 0 else float("nan")
            if nm == "TANH":
                return m.tanh(a)
            if nm == "SQRT":
                return m.sqrt(a) if a >= 0 else float("nan")
        except OverflowError:
            return float("inf")
        m = env.get("__model__")
        if m is not None:
            # contract-stub functions: use the solver model's interpretation at the evaluated arguments
            vals = [_zeval(c, env, mp, memo) for c in ch]
            app = e.decl()(*[rv(Fraction(str(mp.nstr(v, 40)) if mp is not None else repr(float(v)))) for v in vals])
            r = m.eval(app, model_completion=True)
            if z3.is_rational_value(r):
                return _num(r.as_fraction(), mp)
            if z3.is_algebraic_value(r):
                return _num(r.approx(30).as_fraction(), mp)
        raise Unsupported(f"cannot evaluate uninterpreted function {nm}")
    vals = None
    if dk == z3.Z3_OP_ITE:
        c = _zeval(ch[0], env, mp, memo)
        return _zeval(ch[1], env, mp, memo) if c else _zeval(ch[2], env, mp, memo)
    if dk == z3.Z3_OP_AND:
        return all(_zeval(c, env, mp, memo) for c in ch)
    if dk == z3.Z3_OP_OR:
        return any(_zeval(c, env, mp, memo) for c in ch)
    if dk == z3.Z3_OP_IMPLIES:
        return (not _zeval(ch[0], env, mp, memo)) or _zeval(ch[1], env, mp, memo)
    vals = [_zeval(c, env, mp, memo) for c in ch]
    if dk == z3.Z3_OP_ADD:
        r = vals[0]
        for v in vals[1:]:
            r = r + v
        return r
    if dk == z3.Z3_OP_MUL:
        r = vals[0]
        for v in vals[1:]:
            r = r * v
        return r
    if dk == z3.Z3_OP_SUB:
        r = vals[0]
        for v in vals[1:]:
            r = r - v
        return r
    if dk == z3.Z3_OP_UMINUS:
        return -vals[0]
    if dk == z3.Z3_OP_DIV:
        try:
            return vals[0] / vals[1]
        except ZeroDivisionError:
            return float("nan")
    if dk == z3.Z3_OP_POWER:
        return vals[0] ** vals[1]
    if dk == z3.Z3_OP_LE: return vals[0] <= vals[1]
    if dk == z3.Z3_OP_LT: return vals[0] < vals[1]
    if dk == z3.Z3_OP_GE: return vals[0] >= vals[1]
    if dk == z3.Z3_OP_GT: return vals[0] > vals[1]
    if dk == z3.Z3_OP_EQ: return vals[0] == vals[1]
    if dk == z3.Z3_OP_DISTINCT: return vals[0] != vals[1]
    if dk == z3.Z3_OP_NOT: return not vals[0]
    if dk == z3.Z3_OP_TO_REAL: return vals[0]
    raise Unsupported(f"cannot evaluate z3 operator {e.decl().name()}")


_AC_INTERN = {}


def ac_key(e, memo=None):
    """canonical id of a term modulo associativity/commutativity of + and * (equal ids <=> AC-equal terms);
    hash-consed, linear in the size of the term DAG"""
    memo = {} if memo is None else memo
    st = [(e, False)]
    while st:
        t, done = st.pop()
        i = t.get_id()
        if i in memo:
            continue
        ch = t.children() if z3.is_app(t) else []
        if not done and ch:
            st.append((t, True))
            for c in ch:
                if c.get_id() not in memo:
                    st.append((c, False))
            continue
        if z3.is_rational_value(t):
            key = ("num", str(t.as_fraction()))
        elif not ch:
            key = ("atom", str(t))
        else:
            k = t.decl().kind()
            if k in (z3.Z3_OP_ADD, z3.Z3_OP_MUL):
                parts = []
                stack = list(ch)
                while stack:
                    c = stack.pop()
                    if z3.is_app(c) and c.decl().kind() == k and c.num_args() > 0 and not z3.is_rational_value(c):
                        stack.extend(c.children())
                        for cc in c.children():
                            if cc.get_id() not in memo:
                                ac_key(cc, memo)
                    else:
                        parts.append(memo[c.get_id()] if c.get_id() in memo else ac_key(c, memo))
                key = (t.decl().name(), tuple(sorted(parts)))
            else:
                key = (t.decl().name(), tuple(memo[c.get_id()] for c in ch))
        memo[i] = _AC_INTERN.setdefault(key, len(_AC_INTERN))
    return memo[e.get_id()]


# ----------------------------------------------------------------------------------------------
# model conformance self-test: every primitive model against the real jax.numpy on concrete data
# ----------------------------------------------------------------------------------------------
def selftest(seed=0):
    """Differential test of the primitive models (bounded; reported under trusted_base, never as a proof).
    Each model is run on Sym constants and evaluated back to floats, and compared with the installed JAX primitive."""
    import jax
    jax.config.update("jax_enable_x64", True)
    rng = np.random.default_rng(seed)
    bad, n = [], 0

    def val(x):
        if isinstance(x, Sym):
            return float(zeval(x.e, {}))
        if isinstance(x, np.ndarray) and x.dtype == object:
            out = np.empty(x.shape)
            for ix in np.ndindex(x.shape):
                out[ix] = val(x[ix])
            return out
        if isinstance(x, (tuple, list)):
            return [val(v) for v in x]
        if isinstance(x, dict):
            return {k: val(v) for k, v in x.items()}
        return np.asarray(x, dtype=float)

    def sym(a):
        return SymArray(np.asarray(a, dtype=float))

    def check(name, got, want):
        nonlocal n
        n += 1
        g, w = np.asarray(val(got), dtype=float), np.asarray(want, dtype=float)
        if g.shape != w.shape or not np.allclose(g, w, rtol=1e-9, atol=1e-12, equal_nan=True):
            bad.append(f"{name}: model {g.tolist()} vs jax {w.tolist()}")
    a = rng.uniform(-2, 2, 5)
    b = rng.uniform(0.5, 3, 5)
    m = rng.uniform(-2, 2, (2, 3))
    J = _real_jnp
    for nm, f, rf, x in (("exp", exp, J.exp, a), ("log", log, J.log, b), ("log1p", log1p, J.log1p, b), ("tanh", tanh, J.tanh, a), ("sqrt", sqrt, J.sqrt, b),
                         ("abs", abs_, J.abs, a), ("expm1", expm1, J.expm1, a), ("nn.sigmoid", nn_sigmoid, _real_jax.nn.sigmoid, a), ("nn.softplus", nn_softplus, _real_jax.nn.softplus, a),
                         ("cumsum", cumsum, J.cumsum, a), ("flip", flip, J.flip, a)):
        check(nm, f(sym(x)), rf(x))
    check("clip", clip(sym(a), None, 0.5), J.clip(a, None, 0.5))
    check("clip2", clip(sym(a), -0.5, 0.5), J.clip(a, -0.5, 0.5))
    check("minimum", minimum(sym(a), sym(b)), J.minimum(a, b))
    check("maximum", maximum(sym(a), 0.3), J.maximum(a, 0.3))
    check("where", where(sym(a) > 0, sym(a), sym(b)), J.where(a > 0, a, b))
    check("sum", sum_(sym(m), axis=0), J.sum(m, axis=0))
    check("sum_all", sum_(sym(m)), J.sum(m))
    check("mean", mean(sym(a)), J.mean(a))
    check("concatenate", concatenate([sym(a), sym(b)]), J.concatenate([a, b]))
    check("stack", stack([sym(a), sym(b)]), J.stack([a, b]))
    check("reshape", reshape(sym(m), (3, 2)), J.reshape(m, (3, 2)))
    check("expand_dims", expand_dims(sym(a), 0), J.expand_dims(a, 0))
    check("zeros_like", zeros_like(sym(a)), J.zeros_like(a))
    check("ones", ones(4), J.ones(4))
    idx = np.asarray([0, 2, 2, 4])
    check("at.add (duplicates sum)", sym(a).at[idx].add(sym(b[:4])), J.asarray(a).at[idx].add(b[:4]))
    check("at.set", sym(a).at[np.asarray([1, 3])].set(sym(b[:2])), J.asarray(a).at[np.asarray([1, 3])].set(b[:2]))
    check("at.set negative index wraps", sym(a).at[np.asarray([-1])].set(7.0), J.asarray(a).at[np.asarray([-1])].set(7.0))
    check("gather", sym(a)[np.asarray([3, 0, 0])], J.asarray(a)[np.asarray([3, 0, 0])])
    check("slice", sym(m)[:, 1:], m[:, 1:])
    check("arith", (sym(a) * 2.0 - sym(b)) / sym(b) + sym(a) ** 2, (a * 2.0 - b) / b + a ** 2)
    check("vmap", vmap(lambda x, y: x * y + 1.0, in_axes=(0, 0))(sym(a), sym(b)), _real_jax.vmap(lambda x, y: x * y + 1.0, in_axes=(0, 0))(a, b))
    check("vmap in_axes None", vmap(lambda x, y: x * y, in_axes=(None, 0))(Sym(2.5), sym(b)), _real_jax.vmap(lambda x, y: x * y, in_axes=(None, 0))(2.5, b))
    check("fori_loop", fori_loop(0, 4, lambda i, v: v * 2.0 + i, Sym(1.0)), _real_jax.lax.fori_loop(0, 4, lambda i, v: v * 2.0 + i, 1.0))
    dn = _real_jax.lax.ScatterDimensionNumbers(update_window_dims=(), inserted_window_dims=(0,), scatter_dims_to_operand_dims=(0,))
    check("scatter_add", scatter_add(sym(np.zeros(5)), idx[:, None], sym(b[:4]), ScatterDimensionNumbers(update_window_dims=(), inserted_window_dims=(0,), scatter_dims_to_operand_dims=(0,))),
          _real_jax.lax.scatter_add(J.zeros(5), idx[:, None], J.asarray(b[:4]), dn))
    c, ys = lax_scan(lambda carry, x: (carry + x, carry * x), Sym(0.5), sym(a))
    rc, rys = _real_jax.lax.scan(lambda carry, x: (carry + x, carry * x), 0.5, J.asarray(a))
    check("lax.scan carry", c, rc)
    check("lax.scan ys", ys, rys)
    check("tree_map", tree_map(lambda x, y: x + y, {"k": sym(a)}, {"k": sym(b)})["k"], a + b)
    return n, bad
